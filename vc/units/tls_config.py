"""Unit tls_config (Verus): which certificate verifier, which certificate and which key end up in the TLS configurations anemo hands to
quinn, and which configuration a dial uses (C01 wiring, C03 pin wiring).

Functions under contract: config.rs EndpointConfigBuilder::{client_config, server_config, generate_cert, build},
EndpointConfig::{peer_id, server_name, client_config, server_config, client_config_with_expected_server_identity};
endpoint.rs Endpoint::{connect, connect_with_expected_peer_id, connect_with_client_config}, Connecting::{new, new_inbound, new_outbound}.

rustls' / quinn's configuration builders are typestate stand-ins that only RECORD what they are given (ghost fields): the contracts are
about the flow of arguments (the verifier object, the pinned PeerId, the certificate, the key, the protocol versions, the server name),
never about what rustls does with them.
"""
import re
import prelude as P

NAME = 'tls_config'
BACKEND = 'verus'
CFG = 'crates/anemo/src/config.rs'
EP = 'crates/anemo/src/endpoint.rs'
CRYPTO = 'crates/anemo/src/crypto.rs'

STANDINS = r'''
// ---------- trusted stand-ins: rustls / quinn configuration builders as recorders ----------
#[derive(Debug)]
pub struct Error { pub tag: u8 }
impl Error { #[verifier::external_body] pub fn msg() -> (r: Error) { unimplemented!() } }
pub type Result<T, E = Error> = core::result::Result<T, E>;
pub struct CertificateDer { pub der: Seq<u8> }
pub struct PrivateKeyDer { pub der: Seq<u8> }
impl CertificateDer { #[verifier::external_body] pub fn clone(&self) -> (r: Self) ensures r == *self { unimplemented!() } }
impl PrivateKeyDer { #[verifier::external_body] pub fn clone_key(&self) -> (r: Self) ensures r == *self { unimplemented!() } }
#[derive(PartialEq, Eq, Clone, Copy, Structural)]
pub enum TlsVersion { TLS12, TLS13 }
pub open spec fn deref_seq(v: Seq<&TlsVersion>) -> Seq<TlsVersion> { Seq::new(v.len(), |i: int| *v[i]) }
// rustls accepts a client-auth certificate chain only together with a private key that fits it
pub uninterp spec fn key_fits(cert: CertificateDer, key: PrivateKeyDer) -> bool;
pub open spec fn key_matches(chain: Seq<CertificateDer>, key: PrivateKeyDer) -> bool { chain.len() >= 1 && key_fits(chain[0], key) }
// the server-certificate verifier object a client configuration carries
pub enum InstalledVerifier { Base(CertVerifier), Pinned(CertVerifier, PeerId) }
pub trait ServerCertVerifierObject { spec fn installed(&self) -> InstalledVerifier; }
impl ServerCertVerifierObject for Arc<CertVerifier> { open spec fn installed(&self) -> InstalledVerifier { InstalledVerifier::Base(**self) } }
impl ServerCertVerifierObject for Arc<ExpectedCertVerifier> { open spec fn installed(&self) -> InstalledVerifier { InstalledVerifier::Pinned((**self).0, (**self).1) } }
pub struct ClientTls { pub versions: Seq<TlsVersion>, pub verifier: InstalledVerifier, pub chain: Seq<CertificateDer>, pub key: PrivateKeyDer }
pub struct ServerTls { pub versions: Seq<TlsVersion>, pub client_verifier: CertVerifier, pub certs: Map<Seq<char>, (Seq<CertificateDer>, PrivateKeyDer)>,
                       pub catch_all: bool /* a certificate is presented whatever name the hello asks for */ }
// quinn::TransportConfig as a recorder of the knobs anemo turns (None = quinn's default): idle timeout and keep-alive in ms, stream limits
pub struct TransportConfig { pub id: u64, pub idle_ms: Ghost<Option<nat>>, pub keep_alive_ms: Ghost<Option<nat>>, pub bidi: Ghost<Option<nat>>, pub uni: Ghost<Option<nat>> }
impl Default for TransportConfig {
    #[verifier::external_body] fn default() -> (r: Self) ensures r.idle_ms@ is None, r.keep_alive_ms@ is None, r.bidi@ is None, r.uni@ is None { unimplemented!() }
}
pub open spec fn varint_max() -> nat { 4611686018427387903 }     // 2^62 - 1
#[derive(Clone, Copy)] pub struct VarInt { pub v: u64 }
pub struct VarIntBoundsExceeded;
impl VarInt {
    pub const MAX: VarInt = VarInt { v: 4611686018427387903 };
    #[verifier::external_body] pub fn try_from(n: u64) -> (r: core::result::Result<VarInt, VarIntBoundsExceeded>) ensures r is Ok <==> n <= varint_max(), r is Ok ==> r->Ok_0.v == n { unimplemented!() }
}
pub struct IdleTimeout { pub ms: u64 }
impl From<VarInt> for IdleTimeout { #[verifier::external_body] fn from(v: VarInt) -> (r: IdleTimeout) ensures r.ms == v.v { unimplemented!() } }
pub struct StdDuration { pub ms: Ghost<nat> }
pub struct Duration;
impl Duration { #[verifier::external_body] pub fn from_millis(ms: u64) -> (r: StdDuration) ensures r.ms@ == ms { unimplemented!() } }
impl TransportConfig {
    #[verifier::external_body] pub fn max_concurrent_bidi_streams(&mut self, v: VarInt) -> (r: ()) ensures final(self).bidi@ == Some(v.v as nat), final(self).uni == old(self).uni, final(self).idle_ms == old(self).idle_ms, final(self).keep_alive_ms == old(self).keep_alive_ms { unimplemented!() }
    #[verifier::external_body] pub fn max_concurrent_uni_streams(&mut self, v: VarInt) -> (r: ()) ensures final(self).uni@ == Some(v.v as nat), final(self).bidi == old(self).bidi, final(self).idle_ms == old(self).idle_ms, final(self).keep_alive_ms == old(self).keep_alive_ms { unimplemented!() }
    #[verifier::external_body] pub fn max_idle_timeout(&mut self, v: Option<IdleTimeout>) -> (r: ()) ensures final(self).idle_ms@ == (match v { Some(t) => Some(t.ms as nat), None => None::<nat> }), final(self).bidi == old(self).bidi, final(self).uni == old(self).uni, final(self).keep_alive_ms == old(self).keep_alive_ms { unimplemented!() }
    #[verifier::external_body] pub fn keep_alive_interval(&mut self, v: Option<StdDuration>) -> (r: ()) ensures final(self).keep_alive_ms@ == (match v { Some(d) => Some(d.ms@), None => None::<nat> }), final(self).bidi == old(self).bidi, final(self).uni == old(self).uni, final(self).idle_ms == old(self).idle_ms { unimplemented!() }
    // windows and buffers: not tracked
    #[verifier::external_body] pub fn stream_receive_window(&mut self, v: VarInt) -> (r: ()) ensures final(self).bidi == old(self).bidi, final(self).uni == old(self).uni, final(self).idle_ms == old(self).idle_ms, final(self).keep_alive_ms == old(self).keep_alive_ms { unimplemented!() }
    #[verifier::external_body] pub fn receive_window(&mut self, v: VarInt) -> (r: ()) ensures final(self).bidi == old(self).bidi, final(self).uni == old(self).uni, final(self).idle_ms == old(self).idle_ms, final(self).keep_alive_ms == old(self).keep_alive_ms { unimplemented!() }
    #[verifier::external_body] pub fn send_window(&mut self, v: u64) -> (r: ()) ensures final(self).bidi == old(self).bidi, final(self).uni == old(self).uni, final(self).idle_ms == old(self).idle_ms, final(self).keep_alive_ms == old(self).keep_alive_ms { unimplemented!() }
    #[verifier::external_body] pub fn crypto_buffer_size(&mut self, v: usize) -> (r: ()) ensures final(self).bidi == old(self).bidi, final(self).uni == old(self).uni, final(self).idle_ms == old(self).idle_ms, final(self).keep_alive_ms == old(self).keep_alive_ms { unimplemented!() }
}
pub open spec fn cap_u64(n: u64) -> nat { if n as nat <= varint_max() { n as nat } else { varint_max() } }
pub open spec fn opt_nat(o: Option<u64>) -> Option<nat> { match o { Some(n) => Some(n as nat), None => None } }
pub open spec fn capped(o: Option<u64>) -> Option<nat> { match o { Some(n) => Some(cap_u64(n)), None => None } }
pub struct Provider;
pub struct SigningKey { pub of: PrivateKeyDer }
pub mod rustls {
    use super::*;
    pub mod version { use super::super::*; pub exec static TLS13: TlsVersion ensures TLS13 == TlsVersion::TLS13 { TlsVersion::TLS13 } }
    pub mod crypto { pub mod ring {
        use super::super::super::*;
        #[verifier::external_body] pub fn default_provider() -> (r: Provider) { unimplemented!() }
        pub mod sign {
            use super::super::super::super::*;
            #[verifier::external_body] pub fn any_supported_type(der: &PrivateKeyDer) -> (r: core::result::Result<Arc<SigningKey>, Error>) ensures r is Ok ==> (*r->Ok_0).of == *der { unimplemented!() }
        }
    } }
    pub mod sign {
        use super::super::*;
        pub struct CertifiedKey { pub chain: Seq<CertificateDer>, pub key: PrivateKeyDer }
        impl CertifiedKey {
            #[verifier::external_body] pub fn new(cert: Vec<CertificateDer>, key: Arc<SigningKey>) -> (r: Self) ensures r.chain == cert@, r.key == (*key).of { unimplemented!() }
        }
    }
    pub mod server {
        use super::super::*;
        pub struct ResolvesServerCertUsingSni { pub by_name: Ghost<Map<Seq<char>, (Seq<CertificateDer>, PrivateKeyDer)>> }
        impl ResolvesServerCertUsingSni {
            #[verifier::external_body] pub fn new() -> (r: Self) ensures r.by_name@ == Map::<Seq<char>, (Seq<CertificateDer>, PrivateKeyDer)>::empty() { unimplemented!() }
            #[verifier::external_body]
            pub fn add(&mut self, name: &str, ck: super::sign::CertifiedKey) -> (r: core::result::Result<(), Error>)
                ensures r is Ok ==> final(self).by_name@ == old(self).by_name@.insert(name@, (ck.chain, ck.key)), r is Err ==> final(self).by_name@ == old(self).by_name@ { unimplemented!() }
        }
    }
    // ---- client side: builder_with_provider(..).with_protocol_versions(..)? .dangerous() .with_custom_certificate_verifier(v) .with_client_auth_cert(chain, key)?
    pub struct ClientConfig { pub tls: Ghost<ClientTls> }
    pub struct ClientBuilder0;
    pub struct ClientBuilder1 { pub versions: Ghost<Seq<TlsVersion>> }
    pub struct ClientBuilder2 { pub versions: Ghost<Seq<TlsVersion>> }
    pub struct ClientBuilder3 { pub versions: Ghost<Seq<TlsVersion>>, pub verifier: Ghost<InstalledVerifier> }
    impl ClientConfig { #[verifier::external_body] pub fn builder_with_provider(p: Arc<Provider>) -> (r: ClientBuilder0) { unimplemented!() } }
    impl ClientBuilder0 {
        #[verifier::external_body]
        pub fn with_protocol_versions(self, v: &[&TlsVersion]) -> (r: core::result::Result<ClientBuilder1, Error>)
            ensures r is Ok ==> r->Ok_0.versions@ == deref_seq(v@) { unimplemented!() }
        #[verifier::external_body]
        pub fn with_safe_default_protocol_versions(self) -> (r: core::result::Result<ClientBuilder1, Error>)
            ensures r is Ok, r->Ok_0.versions@ == seq![TlsVersion::TLS13, TlsVersion::TLS12] { unimplemented!() }
    }
    impl ClientBuilder1 { #[verifier::external_body] pub fn dangerous(self) -> (r: ClientBuilder2) ensures r.versions == self.versions { unimplemented!() } }
    impl ClientBuilder2 {
        #[verifier::external_body]
        pub fn with_custom_certificate_verifier<V: ServerCertVerifierObject>(self, v: V) -> (r: ClientBuilder3) ensures r.versions == self.versions, r.verifier@ == v.installed() { unimplemented!() }
    }
    impl ClientBuilder3 {
        #[verifier::external_body]
        pub fn with_client_auth_cert(self, chain: Vec<CertificateDer>, key: PrivateKeyDer) -> (r: core::result::Result<ClientConfig, Error>)
            ensures r is Ok <==> key_matches(chain@, key), r is Ok ==> r->Ok_0.tls@ == (ClientTls { versions: self.versions@, verifier: self.verifier@, chain: chain@, key: key }) { unimplemented!() }
    }
    // ---- server side: builder_with_provider(..).with_protocol_versions(..)? .with_client_cert_verifier(v) .with_cert_resolver(r)
    pub struct ServerConfig { pub tls: Ghost<ServerTls> }
    pub struct ServerBuilder0;
    pub struct ServerBuilder1 { pub versions: Ghost<Seq<TlsVersion>> }
    pub struct ServerBuilder2 { pub versions: Ghost<Seq<TlsVersion>>, pub client_verifier: Ghost<CertVerifier> }
    impl ServerConfig { #[verifier::external_body] pub fn builder_with_provider(p: Arc<Provider>) -> (r: ServerBuilder0) { unimplemented!() } }
    impl ServerBuilder0 {
        #[verifier::external_body]
        pub fn with_protocol_versions(self, v: &[&TlsVersion]) -> (r: core::result::Result<ServerBuilder1, Error>)
            ensures r is Ok ==> r->Ok_0.versions@ == deref_seq(v@) { unimplemented!() }
    }
    impl ServerBuilder1 {
        // a CLIENT-certificate verifier: the handshake of every dialer goes through it (mandatory: contract of CertVerifier in unit crypto)
        #[verifier::external_body]
        pub fn with_client_cert_verifier(self, v: Arc<CertVerifier>) -> (r: ServerBuilder2) ensures r.versions == self.versions, r.client_verifier@ == *v { unimplemented!() }
    }
    impl ServerBuilder2 {
        #[verifier::external_body]
        pub fn with_cert_resolver(self, res: Arc<server::ResolvesServerCertUsingSni>) -> (r: ServerConfig)
            ensures r.tls@ == (ServerTls { versions: self.versions@, client_verifier: self.client_verifier@, certs: (*res).by_name@, catch_all: false }) { unimplemented!() }
        // rustls' other standard way to give a server its certificate: ONE certificate, presented whatever name the client asks for
        #[verifier::external_body]
        pub fn with_single_cert(self, chain: Vec<CertificateDer>, key: PrivateKeyDer) -> (r: core::result::Result<ServerConfig, Error>)
            ensures r is Ok ==> r->Ok_0.tls@ == (ServerTls { versions: self.versions@, client_verifier: self.client_verifier@, certs: Map::<Seq<char>, (Seq<CertificateDer>, PrivateKeyDer)>::empty(), catch_all: true }) { unimplemented!() }
    }
}
pub struct ResetKey { pub of: [u8; 32] }
pub mod quinn {
    use super::*;
    pub use super::TransportConfig;
    pub mod crypto { pub mod rustls {
        use super::super::super::*;
        pub struct QuicClientConfig { pub tls: Ghost<ClientTls> }
        pub struct QuicServerConfig { pub tls: Ghost<ServerTls> }
        // quinn needs TLS 1.3: the conversion succeeds exactly when the configuration offers it
        impl QuicClientConfig { #[verifier::external_body] pub fn try_from(c: super::super::super::rustls::ClientConfig) -> (r: core::result::Result<Self, Error>) ensures r is Ok <==> c.tls@.versions.contains(TlsVersion::TLS13), r is Ok ==> r->Ok_0.tls == c.tls { unimplemented!() } }
        impl QuicServerConfig { #[verifier::external_body] pub fn try_from(c: super::super::super::rustls::ServerConfig) -> (r: core::result::Result<Self, Error>) ensures r is Ok <==> c.tls@.versions.contains(TlsVersion::TLS13), r is Ok ==> r->Ok_0.tls == c.tls { unimplemented!() } }
    } }
    pub struct ClientConfig { pub tls: Ghost<ClientTls>, pub transport_cfg: Ghost<Option<TransportConfig>> }
    impl ClientConfig {
        #[verifier::external_body] pub fn new(c: Arc<crypto::rustls::QuicClientConfig>) -> (r: Self) ensures r.tls == (*c).tls, r.transport_cfg@ is None { unimplemented!() }
        #[verifier::external_body] pub fn transport_config(&mut self, t: Arc<TransportConfig>) ensures final(self).tls == old(self).tls, final(self).transport_cfg@ == Some(*t) { unimplemented!() }
        #[verifier::external_body] pub fn clone(&self) -> (r: Self) ensures r == *self { unimplemented!() }
    }
    pub struct ServerConfig { pub tls: Ghost<ServerTls>, pub transport: Arc<TransportConfig> }
    impl ServerConfig {
        #[verifier::external_body] pub fn with_crypto(c: Arc<crypto::rustls::QuicServerConfig>) -> (r: Self) ensures r.tls == (*c).tls { unimplemented!() }
    }
    pub struct EndpointConfig { pub reset: Ghost<ResetKey> }
    impl EndpointConfig {
        #[verifier::external_body] pub fn new(k: Arc<ResetKey>) -> (r: Self) ensures r.reset@ == *k { unimplemented!() }
        #[verifier::external_body] pub fn clone(&self) -> (r: Self) ensures r == *self { unimplemented!() }
    }
    // what quinn is asked to dial
    pub struct Connecting { pub tls: Ghost<ClientTls>, pub addr: SocketAddr, pub server_name: Ghost<Seq<char>> }
    pub struct ConnectError;
    pub struct Endpoint { pub id: u64 }
    impl Endpoint {
        #[verifier::external_body]
        pub fn connect_with(&self, config: ClientConfig, addr: SocketAddr, server_name: &str) -> (r: core::result::Result<Connecting, ConnectError>)
            ensures r is Ok ==> r->Ok_0.tls == config.tls && r->Ok_0.addr == addr && r->Ok_0.server_name@ == server_name@ { unimplemented!() }
    }
}
impl From<quinn::ConnectError> for Error { #[verifier::external_body] fn from(e: quinn::ConnectError) -> (r: Error) { unimplemented!() } }
#[derive(PartialEq, Eq, Clone, Copy, Structural)]
pub struct SocketAddr { pub a: u64 }
// ---- key material (ed25519 / rcgen / ring): uninterpreted, only who is derived from what ----
pub mod ed25519 { pub struct KeypairBytes { pub secret_key: [u8; 32], pub public_key: Option<[u8; 32]> } }
pub uninterp spec fn public_of(secret: [u8; 32]) -> [u8; 32];                                // the Ed25519 public key of a private key
pub uninterp spec fn self_signed_cert(secret: [u8; 32], name: Seq<char>) -> CertificateDer;   // rcgen: certificate for `name`, self-signed with that key
pub uninterp spec fn pkcs8_of(secret: [u8; 32]) -> PrivateKeyDer;
pub uninterp spec fn cert_id(cert: CertificateDer) -> core::result::Result<PeerId, ()>;      // unit crypto: peer_id_from_certificate
// ASSUMED (rcgen + x509-parser + pkcs8 agree): the identity read from a certificate generated for a key is that key's public key
#[verifier::external_body]
pub broadcast proof fn axiom_own_certificate(secret: [u8; 32], name: Seq<char>)
    ensures #[trigger] cert_id(self_signed_cert(secret, name)) == Ok::<PeerId, ()>(PeerId(public_of(secret))) {}
pub mod crypto_standin {
    use super::*;
    #[verifier::external_body]
    pub fn peer_id_from_certificate(c: &CertificateDer) -> (r: core::result::Result<PeerId, Error>)
        ensures r is Ok <==> cert_id(*c) is Ok, r is Ok ==> r->Ok_0 == cert_id(*c)->Ok_0 { unimplemented!() }
    #[verifier::external_body]
    pub fn construct_reset_key(private_key: &[u8; 32]) -> (r: ResetKey) ensures r.of == *private_key { unimplemented!() }
}
'''

GENERATE_CERT = r'''
    // rcgen / pkcs8 encoding of generate_cert is NOT verified: stand-in with the statement the callers rely on
    #[verifier::external_body]
    pub fn generate_cert(keypair: &ed25519::KeypairBytes, server_name: &str) -> (r: (CertificateDer, PrivateKeyDer))
        ensures r.0 == self_signed_cert(keypair.secret_key, server_name@), r.1 == pkcs8_of(keypair.secret_key) { unimplemented!() }
'''


def name_closure_params(e):
    t2, k = re.subn(r'\|_\|', '|_unused|', e.text)
    if k:
        e.text = t2
        e.log('X9', '`|_|` closure parameter named (x%d)' % k)


def eta(e):
    """X11: a function path handed to a combinator is eta-expanded (`.map(Connecting::new_outbound)` -> `.map(|x| Connecting::new_outbound(x))`,
    `.map_err(Into::into)` -> `.map_err(|x| x.into())`): same meaning, a form Verus accepts"""
    t = e.text
    t2, k1 = re.subn(r'\.map_err\(Into::into\)', '.map_err(|x: quinn::ConnectError| -> (y: Error) { Error::from(x) })', t)
    t3, k2 = re.subn(r'\.map\((Connecting::new_outbound|Connecting::new_inbound)\)', r'.map(|x: quinn::Connecting| -> (y: Connecting) ensures y == \1_spec(x) { \1(x) })', t2)
    if k1 or k2:
        e.text = t3
        e.log('X11', 'function paths handed to map / map_err eta-expanded (x%d)' % (k1 + k2))


def for_tuple_pattern(invariant):
    """X11: `for (a, b) in xs {` -> `for __pair in it: xs invariant .. { let (a, b) = __pair;` (Verus accepts only a variable there);
    X6: the loop invariant is inserted at the same place"""
    def tr(e):
        t2, k = re.subn(r'\bfor\s+\(([^)]*)\)\s+in\s+([A-Za-z_][A-Za-z0-9_.]*)\s*\{',
                        lambda m: 'for __pair in it: %s\n            invariant %s\n        { let (%s) = __pair;' % (m.group(2), invariant, m.group(1)), e.text)
        if k:
            e.text = t2
            e.log('X11', 'tuple pattern of a for loop moved into a let (x%d)' % k)
            e.log('X6', 'loop invariant inserted: %s' % invariant)
    return tr


def quic_closures(e):
    """X11 / X6: the closures and function paths of QuicConfig::transport_config get the contract their shape determines"""
    t = e.text
    t, k1 = re.subn(r'\.map\(\|(\w+)\|\s*VarInt::try_from\(\1\)\.unwrap_or\(VarInt::MAX\)\)',
                    r'.map(|\1: u64| -> (v: VarInt) ensures v.v as nat == cap_u64(\1) { VarInt::try_from(\1).unwrap_or(VarInt::MAX) })', t)
    t, k2 = re.subn(r'\.map\(Into::into\)', '.map(|v: VarInt| -> (t: IdleTimeout) ensures t.ms == v.v { v.into() })', t)
    t, k3 = re.subn(r'\.map\(Duration::from_millis\)', '.map(|ms: u64| -> (d: StdDuration) ensures d.ms@ == ms { Duration::from_millis(ms) })', t)
    e.text = t
    e.log('X11', 'closures / function paths handed to Option::map annotated by shape: VarInt cap x%d, Into::into x%d, Duration::from_millis x%d' % (k1, k2, k3))


def config_link(e):
    """X11: `.map(QuicConfig::transport_config)` eta-expanded with the contract its target carries; `.unwrap_or_default()` -> `.unwrap_or(TransportConfig::default())`"""
    t = e.text
    t, k1 = re.subn(r'\.map\(QuicConfig::transport_config\)', '.map(|q: &QuicConfig| -> (c: TransportConfig) ensures c.idle_ms@ == capped(q.max_idle_timeout_ms), c.keep_alive_ms@ == opt_nat(q.keep_alive_interval_ms), c.bidi@ == capped(q.max_concurrent_bidi_streams), c.uni@ == capped(q.max_concurrent_uni_streams) { q.transport_config() })', t)
    t, k2 = re.subn(r'\.unwrap_or_default\(\)', '.unwrap_or(TransportConfig::default())', t)
    e.text = t
    e.log('X11', '`.map(QuicConfig::transport_config)` eta-expanded with its target\'s contract (x%d); `.unwrap_or_default()` spelled out (x%d)' % (k1, k2))


def build(ctx):
    C = ctx
    t = P.HEADER.replace('use std::collections::HashMap;', 'use std::collections::HashMap;\nuse std::sync::Arc;') + P.STD_SPECS
    t += P.peer_types(C)
    t += C.item(CRYPTO, 'struct CertVerifier')
    t += C.item(CRYPTO, 'struct ExpectedCertVerifier')
    t += STANDINS
    tyrw = [dict(rule='X5', pattern=r"CertificateDer<'static>", repl='CertificateDer', optional=True), dict(rule='X5', pattern=r"PrivateKeyDer<'static>", repl='PrivateKeyDer', optional=True),
            dict(rule='X5', pattern='quinn::ServerConfig', repl='quinn::ServerConfig', optional=True)]
    t += C.item(CFG, 'struct QuicConfig', derives=False)
    t += 'impl QuicConfig {\n'
    t += C.fn(CFG, 'impl QuicConfig :: fn transport_config', 'QuicConfig::transport_config', ['C09', 'C12', 'C06'], ret='r', transforms=[quic_closures],
              rewrites=[dict(rule='X5', pattern='quinn::TransportConfig', repl='TransportConfig', optional=True)], spec='''
    ensures
        r.idle_ms@ == capped(self.max_idle_timeout_ms), // @OBL QuicConfig::transport_config::idle_timeout_is_the_configured_one [C09] the idle timeout quinn runs with is the configured number of milliseconds (capped at the largest value QUIC can express); none configured leaves quinn's default: this is the bound within which a silent loss of a peer is noticed
        r.keep_alive_ms@ == opt_nat(self.keep_alive_interval_ms), // @OBL QuicConfig::transport_config::keep_alive_is_the_configured_one [C09] keep-alive packets are sent at the configured interval
        r.bidi@ == capped(self.max_concurrent_bidi_streams) && r.uni@ == capped(self.max_concurrent_uni_streams), // @OBL QuicConfig::transport_config::stream_limits_are_the_configured_ones [C12,C06] a remote peer may keep as many streams open as configured, no more
''')
    t += '}\n'
    t += '''
// crate::Config: the one field this unit is about (the other fields play no part in the transport configuration)
pub struct Config { pub quic: Option<QuicConfig> }
impl Config {
'''
    t += C.fn(CFG, 'impl Config :: fn transport_config', 'Config::transport_config', ['C09'], ret='r', transforms=[config_link],
              rewrites=[dict(rule='X5', pattern='quinn::TransportConfig', repl='TransportConfig', optional=True)], spec='''
    ensures
        self.quic is Some ==> r.idle_ms@ == capped(self.quic->Some_0.max_idle_timeout_ms) && r.keep_alive_ms@ == opt_nat(self.quic->Some_0.keep_alive_interval_ms)
            && r.bidi@ == capped(self.quic->Some_0.max_concurrent_bidi_streams) && r.uni@ == capped(self.quic->Some_0.max_concurrent_uni_streams), // @OBL Config::transport_config::is_the_quic_sections [C09] the transport configuration of a network is the one its `quic` configuration section describes
        self.quic is None ==> r.idle_ms@ is None && r.keep_alive_ms@ is None && r.bidi@ is None && r.uni@ is None, // @OBL Config::transport_config::defaults_without_a_quic_section [C09] and quinn's defaults when there is none
''')
    t += '}\n'
    t += C.item(CFG, 'struct EndpointConfigBuilder', derives=False)
    t += C.item(CFG, 'struct EndpointConfig', derives=False, rewrites=tyrw)
    t += '''
pub open spec fn only_tls13() -> Seq<TlsVersion> { seq![TlsVersion::TLS13] }
impl EndpointConfig {
    // what build() establishes and the pinned dial relies on: the stored key fits the stored certificate
    pub open spec fn wf(&self) -> bool { key_fits(self.client_certificate, self.pkcs8_der) }
}
impl EndpointConfigBuilder {
''' + GENERATE_CERT
    hint_c = ('X6', 'let mut client = quinn::ClientConfig::new(', 'assert(client_crypto.tls@.versions[0] == TlsVersion::TLS13); /* proof hint: TLS 1.3 is offered */\n        ', 'before')
    t += C.fn(CFG, 'impl EndpointConfigBuilder :: fn client_config', 'EndpointConfigBuilder::client_config', ['C01', 'C03'], ret='r', rewrites=tyrw, inserts=[hint_c], spec='''
    ensures
        r is Ok ==> r->Ok_0.tls@.verifier == InstalledVerifier::Base(*cert_verifier), // @OBL EndpointConfigBuilder::client_config::installs_the_given_verifier [C01,C03,C14] the client TLS configuration checks server certificates with exactly the verifier it is given (anemo's CertVerifier), nothing else
        r is Ok ==> r->Ok_0.tls@.chain == seq![cert] && r->Ok_0.tls@.key == pkcs8_der && key_fits(cert, pkcs8_der), // @OBL EndpointConfigBuilder::client_config::presents_own_certificate [C01] a dialer presents exactly the node's own certificate and signs the handshake with the matching private key
        r is Ok ==> r->Ok_0.tls@.versions =~= only_tls13(), // @OBL EndpointConfigBuilder::client_config::tls13_only [C01] TLS 1.3 only
        r is Ok ==> r->Ok_0.transport_cfg@ == Some(*transport_config), // @OBL EndpointConfigBuilder::client_config::uses_the_given_transport_configuration [C09] connections this node dials run with the transport parameters it is given (idle timeout, keep-alive, stream limits)
''')
    t += C.fn(CFG, 'impl EndpointConfigBuilder :: fn server_config', 'EndpointConfigBuilder::server_config', ['C01'], ret='r', rewrites=tyrw, inserts=[('X6', 'let mut server = quinn::ServerConfig::with_crypto(', 'assert(server_crypto.tls@.versions[0] == TlsVersion::TLS13); /* proof hint: TLS 1.3 is offered */\n        ', 'before')],
              transforms=[name_closure_params, for_tuple_pattern('(*key).of == pkcs8_der, forall|n: Seq<char>| server_cert_resolver.by_name@.contains_key(n) ==> server_cert_resolver.by_name@[n].1 == pkcs8_der,')],
              spec='''
    ensures
        r is Ok ==> r->Ok_0.tls@.client_verifier == *cert_verifier, // @OBL EndpointConfigBuilder::server_config::installs_the_given_client_verifier [C01,C14] the server TLS configuration verifies the certificate of EVERY dialer with exactly the verifier it is given (client authentication through anemo's CertVerifier, which makes it mandatory)
        r is Ok ==> r->Ok_0.tls@.versions =~= only_tls13(), // @OBL EndpointConfigBuilder::server_config::tls13_only [C01] TLS 1.3 only
        r is Ok ==> r->Ok_0.transport == transport_config, // @OBL EndpointConfigBuilder::server_config::uses_the_given_transport_configuration [C09] connections this node accepts run with the transport parameters it is given
        r is Ok ==> !r->Ok_0.tls@.catch_all, // @OBL EndpointConfigBuilder::server_config::certificate_only_for_a_known_name [C14] the listener presents a certificate only when the name in the TLS hello is one it was configured with (certificates are resolved by name; there is no certificate that is presented for any name)
        r is Ok ==> (forall|n: Seq<char>| r->Ok_0.tls@.certs.contains_key(n) ==> r->Ok_0.tls@.certs[n].1 == pkcs8_der), // @OBL EndpointConfigBuilder::server_config::one_key [C01] every certificate the listener can present is paired with the node's own private key
''')
    t += C.fn(CFG, 'impl EndpointConfigBuilder :: fn build', 'EndpointConfigBuilder::build', ['C01', 'C03', 'C14'], ret='r', rewrites=tyrw + [
        dict(rule='X5', pattern='crate::crypto::construct_reset_key', repl='crypto_standin::construct_reset_key', optional=True),
        dict(rule='X5', pattern='crate::crypto::peer_id_from_certificate', repl='crypto_standin::peer_id_from_certificate', optional=True)],
              body_prefix='\n        broadcast use axiom_own_certificate;\n', spec='''
    requires
        self.private_key is Some, self.server_name is Some,
    ensures
        r is Ok ==> r->Ok_0.peer_id == PeerId(public_of(self.private_key->Some_0)), // @OBL EndpointConfigBuilder::build::own_identity_is_own_key [C01] the node's own PeerId is the public key of the private key it was configured with
        r is Ok ==> r->Ok_0.client_certificate == self_signed_cert(self.private_key->Some_0, self.server_name->Some_0@) && r->Ok_0.pkcs8_der == pkcs8_of(self.private_key->Some_0), // @OBL EndpointConfigBuilder::build::own_certificate_from_own_key [C01,C14] the certificate it presents is self-signed with that key for the network's server name, and the handshake key is that key
        r is Ok ==> r->Ok_0.server_name@ == self.server_name->Some_0@, // @OBL EndpointConfigBuilder::build::server_name [C01,C03,C14] dials ask for the configured network name
        r is Ok ==> r->Ok_0.quinn_client_config.transport_cfg@ == Some(*r->Ok_0.transport_config) && r->Ok_0.quinn_server_config.transport == r->Ok_0.transport_config, // @OBL EndpointConfigBuilder::build::one_transport_configuration_for_every_connection [C09] dialed, accepted and pinned connections all run with the ONE transport configuration the endpoint stores (so the idle timeout that bounds how long a silent loss goes unnoticed is the configured one in every case)
        r is Ok ==> r->Ok_0.quinn_client_config.tls@.verifier is Base && r->Ok_0.quinn_client_config.tls@.verifier->Base_0.server_names@.len() == 1
            && r->Ok_0.quinn_client_config.tls@.verifier->Base_0.server_names@[0]@ == self.server_name->Some_0@, // @OBL EndpointConfigBuilder::build::client_verifier_is_cert_verifier [C01,C03,C14] an unpinned dial verifies the answering certificate with anemo's CertVerifier for the network name
        r is Ok ==> (forall|i: int| 0 <= i < r->Ok_0.quinn_server_config.tls@.client_verifier.server_names@.len() ==>
            r->Ok_0.quinn_server_config.tls@.client_verifier.server_names@[i]@ == self.server_name->Some_0@
            || (self.alternate_server_name is Some && r->Ok_0.quinn_server_config.tls@.client_verifier.server_names@[i]@ == self.alternate_server_name->Some_0@)), // @OBL EndpointConfigBuilder::build::listener_verifier_names [C01,C14] a listener verifies dialers' certificates with anemo's CertVerifier for the network name(s) and no other name
        r is Ok ==> r->Ok_0.wf() && r->Ok_0.quinn_client_config.tls@.chain == seq![r->Ok_0.client_certificate] && r->Ok_0.quinn_client_config.tls@.key == r->Ok_0.pkcs8_der, // @OBL EndpointConfigBuilder::build::dials_with_own_certificate [C01] the default client configuration presents that certificate and key
''')
    t += '}\nimpl EndpointConfig {\n'
    t += C.fn(CFG, 'impl EndpointConfig :: fn peer_id', 'EndpointConfig::peer_id', ['C01'], ret='r', spec='''
    ensures
        r == self.peer_id, // @OBL EndpointConfig::peer_id::field [C01] accessor
''')
    t += C.fn(CFG, 'impl EndpointConfig :: fn server_name', 'EndpointConfig::server_name', ['C01', 'C03'], ret='r', spec='''
    ensures
        r@ == self.server_name@, // @OBL EndpointConfig::server_name::field [C01,C03,C14] accessor
''')
    t += C.fn(CFG, 'impl EndpointConfig :: fn client_config', 'EndpointConfig::client_config', ['C01', 'C03'], ret='r', spec='''
    ensures
        *r == self.quinn_client_config, // @OBL EndpointConfig::client_config::field [C01,C03] accessor
''')
    t += C.fn(CFG, 'impl EndpointConfig :: fn server_config', 'EndpointConfig::server_config', ['C01'], ret='r', spec='''
    ensures
        *r == self.quinn_server_config, // @OBL EndpointConfig::server_config::field [C01] accessor
''')
    t += C.fn(CFG, 'impl EndpointConfig :: fn client_config_with_expected_server_identity', 'EndpointConfig::client_config_with_expected_server_identity', ['C03', 'C01'], ret='r',
              rewrites=tyrw, inserts=[hint_c], spec='''
    requires
        self.wf(),
    ensures
        r.tls@.verifier is Pinned && r.tls@.verifier->Pinned_1 == peer_id && r.tls@.verifier->Pinned_0.server_names@.len() == 1, // @OBL EndpointConfig::client_config_with_expected_server_identity::pins_exactly_the_given_identity [C03,C01] the configuration built for a dial that names an identity verifies the answering certificate with the PINNING verifier for exactly that identity (and the network name)
        r.tls@.chain == seq![self.client_certificate] && r.tls@.key == self.pkcs8_der, // @OBL EndpointConfig::client_config_with_expected_server_identity::presents_own_certificate [C01] and presents the node's own certificate and key
        r.transport_cfg@ == Some(*self.transport_config), // @OBL EndpointConfig::client_config_with_expected_server_identity::keeps_the_transport_configuration [C09,C03] a dial that names an identity runs with the node's configured transport parameters (idle timeout, keep-alive, stream limits) like every other connection: a lost peer is noticed within the configured idle timeout whatever way the connection was made
''')
    t += '}\n'
    # ---- endpoint.rs: which configuration a dial uses -------------------------------------------------------------------
    t += '''
pub struct RwLock<T> { pub v: T }
'''
    t += C.item(EP, 'struct Connecting', derives=False)
    t += C.item(EP, 'struct Endpoint', derives=False)
    t += '''
pub open spec fn connecting_spec(inner: quinn::Connecting, origin: ConnectionOrigin) -> Connecting { Connecting { inner, origin } }
impl Connecting {
    pub open spec fn new_outbound_spec(x: quinn::Connecting) -> Connecting { connecting_spec(x, ConnectionOrigin::Outbound) }
    pub open spec fn new_inbound_spec(x: quinn::Connecting) -> Connecting { connecting_spec(x, ConnectionOrigin::Inbound) }
'''
    t += C.fn(EP, 'impl Connecting :: fn new', 'Connecting::new', ['C03'], ret='r', spec='''
    ensures
        r == connecting_spec(inner, origin), // @OBL Connecting::new::fields [C03,C05] a pending connection remembers which side dialed
''')
    t += C.fn(EP, 'impl Connecting :: fn new_inbound', 'Connecting::new_inbound', ['C05'], ret='r', spec='''
    ensures
        r == Connecting::new_inbound_spec(inner), // @OBL Connecting::new_inbound::origin [C05] an accepted connection is Inbound
''')
    t += C.fn(EP, 'impl Connecting :: fn new_outbound', 'Connecting::new_outbound', ['C05', 'C03'], ret='r', spec='''
    ensures
        r == Connecting::new_outbound_spec(inner), // @OBL Connecting::new_outbound::origin [C05,C03] a dialed connection is Outbound
''')
    t += '}\nimpl Endpoint {\n'
    t += C.fn(EP, 'impl Endpoint :: fn connect_with_client_config', 'Endpoint::connect_with_client_config', ['C03', 'C01', 'C14'], ret='r', transforms=[eta], spec='''
    ensures
        r is Ok ==> r->Ok_0.inner.tls == config.tls && r->Ok_0.inner.addr == address && r->Ok_0.inner.server_name@ == self.config.server_name@ && r->Ok_0.origin == ConnectionOrigin::Outbound, // @OBL Endpoint::connect_with_client_config::dials_with_the_given_configuration [C03,C01,C14] quinn is asked to dial the given address with exactly the TLS configuration handed in, asking for the network's server name; the pending connection is Outbound
''')
    t += C.fn(EP, 'impl Endpoint :: fn connect', 'Endpoint::connect', ['C01', 'C03'], ret='r', spec='''
    ensures
        r is Ok ==> r->Ok_0.inner.tls == self.config.quinn_client_config.tls && r->Ok_0.inner.addr == address, // @OBL Endpoint::connect::uses_default_client_configuration [C01,C03] a dial without an expected identity uses the node's default client configuration (CertVerifier, own certificate)
''')
    t += C.fn(EP, 'impl Endpoint :: fn connect_with_expected_peer_id', 'Endpoint::connect_with_expected_peer_id', ['C03'], ret='r', spec='''
    requires
        self.config.wf(),
    ensures
        r is Ok ==> r->Ok_0.inner.addr == address && r->Ok_0.inner.tls@.verifier is Pinned && r->Ok_0.inner.tls@.verifier->Pinned_1 == peer_id, // @OBL Endpoint::connect_with_expected_peer_id::dials_with_the_pin [C03] a dial that names the identity it expects hands quinn a configuration whose verifier is pinned on exactly that identity: no path reaches the network with the unpinned configuration
''')
    t += '}\n'
    t += C.helpers_here()
    t += P.FOOTER
    t += "impl std::fmt::Debug for quinn::ConnectError { fn fmt(&self, _f: &mut std::fmt::Formatter<'_>) -> std::fmt::Result { Ok(()) } }\n"
    return t
