"""Unit wire (Verus): message codecs of network/wire.rs and the header types of types/{request,response}.rs.

Functions under contract: network_message_frame_codec, write_request, read_request, write_response, read_response,
RequestHeader::from_raw, RawRequestHeader::from_header, Request::{from_parts, into_parts, version},
ResponseHeader::from_raw, RawResponseHeader::from_header, Response::{from_parts, into_parts, version}.
Assumed (external_body): read_version_frame / write_version_frame / Version / StatusCode contracts, which unit kani_wire
PROVES on the same extracted text; bincode (layout + inverse law) and tokio-util framing (validated by execution).
Properties: C07 (layout, round trip, total decoder, extensions never travel), C06 (decode path never panics),
C15 (codec built from the configuration).
"""
import prelude
import streams_parts

NAME = 'wire'
BACKEND = 'verus'
WIRE = 'crates/anemo/src/network/wire.rs'
REQ = 'crates/anemo/src/types/request.rs'
RESP = 'crates/anemo/src/types/response.rs'
TYPES = 'crates/anemo/src/types/mod.rs'
CONFIG = 'crates/anemo/src/config.rs'

HEADER = '''// GENERATED on every run by /verif/vc from /repo's working tree -- do not edit
#![allow(unused_imports, dead_code, unused_variables, unused_mut, non_upper_case_globals, unused_parens, unused_braces)]
use vstd::prelude::*;
use std::collections::HashMap;
verus! {
'''

STANDINS = r'''
// =====================================================================================================
// trusted stand-ins for dependencies (assumed contracts; see evidence.trusted_base)
// =====================================================================================================
#[derive(Debug)]
pub struct Error { pub tag: u8 }
impl Error { #[verifier::external_body] pub fn msg() -> (r: Error) { unimplemented!() } }
pub type Result<T, E = Error> = core::result::Result<T, E>;
pub type HeaderMap = HashMap<String, String>;

// http::Extensions: a type-keyed map; only emptiness matters here
pub struct Extensions { pub n: Ghost<nat> }
impl Extensions {
    pub open spec fn is_empty_spec(&self) -> bool { self.n@ == 0 }
    #[verifier::external_body] pub fn default() -> (r: Self) ensures r.is_empty_spec() { unimplemented!() }
}

// bytes::{Bytes, BytesMut, BufMut}
pub struct Bytes { pub v: Vec<u8> }
impl View for Bytes { type V = Seq<u8>; open spec fn view(&self) -> Seq<u8> { self.v@ } }
pub struct BytesMut { pub v: Vec<u8> }
impl View for BytesMut { type V = Seq<u8>; open spec fn view(&self) -> Seq<u8> { self.v@ } }
pub struct Writer<B> { pub b: B }
pub trait BufMut: Sized { fn writer(self) -> (r: Writer<Self>) ensures r.b == self; }
impl<'a> BufMut for &'a mut BytesMut { #[verifier::external_body] fn writer(self) -> (r: Writer<Self>) { Writer { b: self } } }
impl BytesMut {
    #[verifier::external_body] pub fn new() -> (r: Self) ensures r@ == Seq::<u8>::empty() { unimplemented!() }
    #[verifier::external_body] pub fn freeze(self) -> (r: Bytes) ensures r@ == self@ { unimplemented!() }
    #[verifier::external_body] pub fn len(&self) -> (r: usize) ensures r == self@.len() { unimplemented!() }
    #[verifier::external_body] pub fn is_empty(&self) -> (r: bool) ensures r == (self@.len() == 0) { unimplemented!() }
}
// (observers of the bytes API that edits commonly reach for; each is the obvious statement about the byte sequence)
impl Bytes {
    #[verifier::external_body] pub fn new() -> (r: Self) ensures r@ == Seq::<u8>::empty() { unimplemented!() }
    #[verifier::external_body] pub fn len(&self) -> (r: usize) ensures r == self@.len() { unimplemented!() }
    #[verifier::external_body] pub fn is_empty(&self) -> (r: bool) ensures r == (self@.len() == 0) { unimplemented!() }
    #[verifier::external_body] pub fn clone(&self) -> (r: Self) ensures r@ == self@ { unimplemented!() }
}

// bincode 1.3 with default options: `ser` is its byte layout, `de` its decoder; the inverse law is ASSUMED
pub trait WireSpec: Sized { spec fn ser(&self) -> Seq<u8>; spec fn de(b: Seq<u8>) -> Option<Self>; }
#[verifier::external_body]
pub broadcast proof fn axiom_bincode_inverse<T: WireSpec>(x: T) ensures #[trigger] T::de(x.ser()) == Some(x) {}
pub mod bincode {
    use super::*;
    #[verifier::external_body]
    pub fn serialize_into<'a, T: WireSpec>(w: Writer<&'a mut BytesMut>, value: &T) -> (r: core::result::Result<(), Error>)
        ensures r is Ok, final(w.b)@ == old(w.b)@ + value.ser()
    { unimplemented!() }
    #[verifier::external_body]
    pub fn deserialize<T: WireSpec>(buf: &BytesMut) -> (r: core::result::Result<T, Error>)
        ensures r is Ok <==> T::de(buf@) is Some, r is Ok ==> T::de(buf@) == Some(r->Ok_0)
    { unimplemented!() }
}

// tokio::io::{AsyncRead, AsyncWrite}: a byte source with the bytes still to come, a byte sink with the bytes written so far
pub trait AsyncWrite { spec fn out(&self) -> Seq<u8>; spec fn id(&self) -> nat; }      // id: which stream this is (never changes)
pub trait AsyncRead { spec fn remaining(&self) -> Seq<u8>; spec fn id(&self) -> nat; }
pub trait Unpin {}

pub open spec fn be32(n: nat) -> Seq<u8> { seq![((n / 16777216) % 256) as u8, ((n / 65536) % 256) as u8, ((n / 256) % 256) as u8, (n % 256) as u8] }
pub open spec fn be32_dec(s: Seq<u8>) -> nat recommends s.len() >= 4 { (s[0] as nat) * 16777216 + (s[1] as nat) * 65536 + (s[2] as nat) * 256 + (s[3] as nat) }
pub open spec fn frame(x: Seq<u8>) -> Seq<u8> { be32(x.len()) + x }

// tokio_util::codec::{LengthDelimitedCodec, Builder, FramedWrite, FramedRead} (tokio-util 0.7.19):
// builder defaults: max_frame_len 8 MiB (length_delimited.rs:694), 4-byte big-endian length at offset 0, no adjustment.
pub const TOKIO_UTIL_DEFAULT_MAX_FRAME: usize = 8388608;
// `plain`: the length field counts exactly the payload and sits at the very start of a frame (no length adjustment, no offset, no skip override)
pub struct LengthDelimitedCodec { pub max: usize, pub lfl: usize, pub be: bool, pub plain: bool }
pub struct Builder { pub max: usize, pub lfl: usize, pub be: bool, pub plain: bool }
impl LengthDelimitedCodec {
    #[verifier::external_body]
    pub fn builder() -> (r: Builder) ensures r.max == TOKIO_UTIL_DEFAULT_MAX_FRAME, r.lfl == 4, r.be == true, r.plain { unimplemented!() }
    // (the codec's own accessors for its limit, which edits to the framing reach for)
    #[verifier::external_body]
    pub fn max_frame_length(&self) -> (r: usize) ensures r == self.max { unimplemented!() }
    #[verifier::external_body]
    pub fn set_max_frame_length(&mut self, v: usize) ensures final(self).max == v, final(self).lfl == old(self).lfl, final(self).be == old(self).be, final(self).plain == old(self).plain { unimplemented!() }
}
impl Builder {
    #[verifier::external_body]
    pub fn max_frame_length(&mut self, v: usize) -> (r: &mut Self)
        ensures r.max == v, r.lfl == old(self).lfl, r.be == old(self).be, r.plain == old(self).plain, *final(self) == *final(r) { unimplemented!() }
    #[verifier::external_body]
    pub fn length_field_length(&mut self, v: usize) -> (r: &mut Self)
        ensures r.lfl == v, r.max == old(self).max, r.be == old(self).be, r.plain == old(self).plain, *final(self) == *final(r) { unimplemented!() }
    #[verifier::external_body]
    pub fn big_endian(&mut self) -> (r: &mut Self)
        ensures r.be == true, r.max == old(self).max, r.lfl == old(self).lfl, r.plain == old(self).plain, *final(self) == *final(r) { unimplemented!() }
    #[verifier::external_body]
    pub fn little_endian(&mut self) -> (r: &mut Self)
        ensures r.be == false, r.max == old(self).max, r.lfl == old(self).lfl, r.plain == old(self).plain, *final(self) == *final(r) { unimplemented!() }
    #[verifier::external_body]
    // the builder's other knobs: anything but their defaults changes what the length field means
    #[verifier::external_body]
    pub fn length_adjustment(&mut self, v: isize) -> (r: &mut Self)
        ensures r.plain == (old(self).plain && v == 0), r.max == old(self).max, r.lfl == old(self).lfl, r.be == old(self).be, *final(self) == *final(r) { unimplemented!() }
    #[verifier::external_body]
    pub fn length_field_offset(&mut self, v: usize) -> (r: &mut Self)
        ensures r.plain == (old(self).plain && v == 0), r.max == old(self).max, r.lfl == old(self).lfl, r.be == old(self).be, *final(self) == *final(r) { unimplemented!() }
    #[verifier::external_body]
    pub fn num_skip(&mut self, v: usize) -> (r: &mut Self)
        ensures r.plain == false, r.max == old(self).max, r.lfl == old(self).lfl, r.be == old(self).be, *final(self) == *final(r) { unimplemented!() }
    #[verifier::external_body]
    pub fn new_codec(&self) -> (r: LengthDelimitedCodec) ensures r.max == self.max, r.lfl == self.lfl, r.be == self.be, r.plain == self.plain { unimplemented!() }
}
pub struct FramedWrite<T, C> { pub inner: T, pub codec: C }
impl<T: AsyncWrite> FramedWrite<T, LengthDelimitedCodec> {
    #[verifier::external_body]
    pub fn new(inner: T, codec: LengthDelimitedCodec) -> (r: Self) ensures r.inner == inner, r.codec == codec { unimplemented!() }
    #[verifier::external_body]
    pub fn get_mut(&mut self) -> (r: &mut T)
        ensures *r == old(self).inner, final(self).inner == *final(r), final(self).codec == old(self).codec { unimplemented!() }
    #[verifier::external_body]
    pub fn encoder(&self) -> (r: &LengthDelimitedCodec) ensures *r == self.codec { unimplemented!() }
    #[verifier::external_body]
    pub fn encoder_mut(&mut self) -> (r: &mut LengthDelimitedCodec)
        ensures *r == old(self).codec, final(self).codec == *final(r), final(self).inner == old(self).inner { unimplemented!() }
    // encode (length_delimited.rs:608): `if n > max_frame_len { return Err(frame size too big) }`, then length head + payload
    #[verifier::external_body]
    pub async fn send(&mut self, item: Bytes) -> (r: Result<()>)
        requires old(self).codec.lfl == 4, old(self).codec.be, old(self).codec.plain
        ensures final(self).codec == old(self).codec, final(self).inner.id() == old(self).inner.id(),
            r is Ok ==> item@.len() <= old(self).codec.max && final(self).inner.out() == old(self).inner.out() + frame(item@),
            item@.len() > old(self).codec.max ==> r is Err && final(self).inner.out() == old(self).inner.out(),
    { unimplemented!() }
}
// the reader buffers nothing before its first frame is requested: `buffered` are bytes already pulled from `inner`
pub struct FramedRead<T, C> { pub inner: T, pub codec: C, pub buffered: Ghost<Seq<u8>> }
pub open spec fn take_frame(s: Seq<u8>, max: nat) -> Option<(Seq<u8>, Seq<u8>)> {
    if s.len() < 4 { None }
    else if be32_dec(s) > max { None }
    else if s.len() < 4 + be32_dec(s) { None }
    else { Some((s.subrange(4, 4 + be32_dec(s) as int), s.subrange(4 + be32_dec(s) as int, s.len() as int))) }
}
impl<T: AsyncRead> FramedRead<T, LengthDelimitedCodec> {
    #[verifier::external_body]
    pub fn new(inner: T, codec: LengthDelimitedCodec) -> (r: Self) ensures r.inner == inner, r.codec == codec, r.buffered@.len() == 0 { unimplemented!() }
    #[verifier::external_body]
    pub fn get_mut(&mut self) -> (r: &mut T)
        ensures *r == old(self).inner, final(self).inner == *final(r), final(self).codec == old(self).codec, final(self).buffered == old(self).buffered { unimplemented!() }
    #[verifier::external_body]
    pub fn decoder(&self) -> (r: &LengthDelimitedCodec) ensures *r == self.codec { unimplemented!() }
    #[verifier::external_body]
    pub fn decoder_mut(&mut self) -> (r: &mut LengthDelimitedCodec)
        ensures *r == old(self).codec, final(self).codec == *final(r), final(self).inner == old(self).inner, final(self).buffered == old(self).buffered { unimplemented!() }
    pub open spec fn input(&self) -> Seq<u8> { self.buffered@ + self.inner.remaining() }
    // decode (length_delimited.rs:522): `if n > max_frame_len { Err }`; EOF with a partial frame is an error, EOF with nothing is None
    #[verifier::external_body]
    pub async fn next(&mut self) -> (r: Option<core::result::Result<BytesMut, Error>>)
        requires old(self).codec.lfl == 4, old(self).codec.be, old(self).codec.plain
        ensures final(self).codec == old(self).codec,
            (r is Some && r->Some_0 is Ok) <==> take_frame(old(self).input(), old(self).codec.max as nat) is Some,
            r is Some && r->Some_0 is Ok ==> (r->Some_0->Ok_0)@ == take_frame(old(self).input(), old(self).codec.max as nat)->Some_0.0
                && final(self).input() == take_frame(old(self).input(), old(self).codec.max as nat)->Some_0.1,
            r is None ==> old(self).input().len() == 0,
    { unimplemented!() }
}

'''

CONFIG_STANDIN = r'''
// crate::Config: only the accessor the codec reads (extracted verbatim below)
pub struct Config { pub max_frame_size: Option<usize> }
impl Config { #[verifier::external_body] pub fn default() -> (r: Config) ensures r.max_frame_size is None { unimplemented!() } }
'''

SPEC = r'''
// =====================================================================================================
// Oracle written from the statement of C07
// =====================================================================================================
pub open spec fn version_code(v: Version) -> nat { 1 }     // the only version; proved for the real enum by kani_wire::version_closed_set
// "the 8-byte preamble 'anemo', big-endian version, zero byte"
pub open spec fn preamble(v: Version) -> Seq<u8> {
    seq![97u8, 110u8, 101u8, 109u8, 111u8, ((version_code(v) / 256) % 256) as u8, (version_code(v) % 256) as u8, 0u8]
}
// "then two 4-byte big-endian length-prefixed frames holding the bincode header and the raw body"
pub open spec fn enc_message(v: Version, header: Seq<u8>, body: Seq<u8>) -> Seq<u8> { preamble(v) + frame(header) + frame(body) }

// total decoder of the message layout: Some((header bytes, body bytes, rest)) or None
pub open spec fn dec_message(s: Seq<u8>, max: nat) -> Option<(Seq<u8>, Seq<u8>, Seq<u8>)> {
    if s.len() < 8 || s.subrange(0, 8) != preamble(Version::V1) { None }
    else {
        match take_frame(s.subrange(8, s.len() as int), max) {
            None => None,
            Some((h, rest)) => match take_frame(rest, max) {
                None => None,
                Some((b, rest2)) => Some((h, b, rest2)),
            }
        }
    }
}

pub proof fn lemma_be32_roundtrip(n: nat) // @FNOBL spec::be32_roundtrip [C07] the 4-byte big-endian length prefix is decoded back to the length it encodes, for every length below 2^32
    requires n < 4294967296
    ensures be32_dec(be32(n)) == n, be32(n).len() == 4
{
    assert(be32(n)[0] as nat == (n / 16777216) % 256);
    assert(n == (n / 16777216) * 16777216 + ((n / 65536) % 256) * 65536 + ((n / 256) % 256) * 256 + (n % 256)) by (nonlinear_arith) requires n < 4294967296;
    assert((n / 16777216) % 256 == n / 16777216) by (nonlinear_arith) requires n < 4294967296;
}
pub proof fn lemma_take_frame_of_frame(x: Seq<u8>, rest: Seq<u8>, max: nat) // @FNOBL spec::take_frame_of_frame [C07] a frame that was written (payload within the limit) is read back intact, followed by exactly the remaining bytes
    requires x.len() <= max, x.len() < 4294967296
    ensures take_frame(frame(x) + rest, max) == Some((x, rest))
{
    lemma_be32_roundtrip(x.len());
    let s = frame(x) + rest;
    assert(s[0] == be32(x.len())[0] && s[1] == be32(x.len())[1] && s[2] == be32(x.len())[2] && s[3] == be32(x.len())[3]);
    assert(be32_dec(s) == be32_dec(be32(x.len())));
    assert(s.subrange(4, 4 + x.len() as int) =~= x);
    assert(s.subrange(4 + x.len() as int, s.len() as int) =~= rest);
}
pub proof fn lemma_message_roundtrip(v: Version, h: Seq<u8>, b: Seq<u8>, max: nat) // @FNOBL spec::message_roundtrip [C07] decoding the bytes produced for a message (both frames within the limit) yields exactly its header bytes and body, with nothing left over
    requires h.len() <= max, b.len() <= max, h.len() < 4294967296, b.len() < 4294967296
    ensures dec_message(enc_message(v, h, b), max) == Some((h, b, Seq::<u8>::empty()))
{
    let s = enc_message(v, h, b);
    assert(s.subrange(0, 8) =~= preamble(Version::V1));
    assert(s.subrange(8, s.len() as int) =~= frame(h) + frame(b));
    lemma_take_frame_of_frame(h, frame(b), max);
    assert(frame(b) =~= frame(b) + Seq::<u8>::empty());
    lemma_take_frame_of_frame(b, Seq::<u8>::empty(), max);
}
pub proof fn lemma_take_frame_prefix(x: Seq<u8>, k: int, max: nat) // @FNOBL spec::take_frame_prefix [C07] every strict prefix of a frame is rejected
    requires x.len() < 4294967296, 0 <= k < frame(x).len()
    ensures take_frame(frame(x).subrange(0, k), max) is None
{
    lemma_be32_roundtrip(x.len());
    let p = frame(x).subrange(0, k);
    if k >= 4 {
        assert(p[0] == be32(x.len())[0] && p[1] == be32(x.len())[1] && p[2] == be32(x.len())[2] && p[3] == be32(x.len())[3]);
        assert(be32_dec(p) == x.len());
    }
}
pub proof fn lemma_message_prefix_rejected(v: Version, h: Seq<u8>, b: Seq<u8>, k: int, max: nat) // @FNOBL spec::message_prefix_rejected [C07] every strict prefix of a valid message is rejected by the decoder
    requires h.len() <= max, b.len() <= max, h.len() < 4294967296, b.len() < 4294967296, 0 <= k < enc_message(v, h, b).len()
    ensures dec_message(enc_message(v, h, b).subrange(0, k), max) is None
{
    let s = enc_message(v, h, b);
    let p = s.subrange(0, k);
    if k < 8 { }
    else {
        assert(p.subrange(0, 8) =~= s.subrange(0, 8));
        assert(s.subrange(0, 8) =~= preamble(Version::V1));
        let rest = p.subrange(8, p.len() as int);
        let fh = frame(h);
        if k < 8 + fh.len() {
            assert(rest =~= fh.subrange(0, k - 8));
            lemma_take_frame_prefix(h, k - 8, max);
        } else {
            let fb = frame(b);
            assert(rest =~= fh + fb.subrange(0, k - 8 - fh.len()));
            lemma_take_frame_of_frame(h, fb.subrange(0, k - 8 - fh.len()), max);
            lemma_take_frame_prefix(b, k - 8 - fh.len(), max);
        }
    }
}
'''


def build(ctx):
    C = ctx
    C.helper_rewrites = [dict(rule='X5', pattern='tokio::task::JoinError', repl='JoinError'), dict(rule='X5', pattern='std::panic::resume_unwind', repl='resume_unwind'),
                         dict(rule='X5', pattern='crate::connection::Connection', repl='Connection'), dict(rule='X5', pattern='crate::ConnectionOrigin', repl='ConnectionOrigin')]
    C.helper_transforms = [lambda e: e.replace_macro('panic', 'explicit_panic()')]
    t = prelude.HEADER
    # ---- types (verbatim) --------------------------------------------------------------------------
    t += C.item(TYPES, 'enum Version', rewrites=[('X5', 'V1 = 1,', 'V1,', 1)])
    t += C.item(RESP, 'enum StatusCode', rewrites=[('X5', r'\s*=\s*\d+,', ',', None, True)])
    t += prelude.STD_SPECS + STANDINS + CONFIG_STANDIN
    t += C.item(RESP, 'struct InvalidStatusCodeError')
    t += '''
// Version / StatusCode conversions: ASSUMED here, PROVED by unit kani_wire on the same extracted text (enum `as u16` casts are outside Verus)
pub open spec fn status_code(s: StatusCode) -> u16 {
    match s { StatusCode::Success => 200, StatusCode::BadRequest => 400, StatusCode::NotFound => 404, StatusCode::RequestTimeout => 408,
              StatusCode::TooManyRequests => 429, StatusCode::InternalServerError => 500, StatusCode::VersionNotSupported => 505, StatusCode::Unknown => 520 }
}
pub open spec fn status_of(code: u16) -> Option<StatusCode> {
    if code == 200 { Some(StatusCode::Success) } else if code == 400 { Some(StatusCode::BadRequest) } else if code == 404 { Some(StatusCode::NotFound) }
    else if code == 408 { Some(StatusCode::RequestTimeout) } else if code == 429 { Some(StatusCode::TooManyRequests) } else if code == 500 { Some(StatusCode::InternalServerError) }
    else if code == 505 { Some(StatusCode::VersionNotSupported) } else if code == 520 { Some(StatusCode::Unknown) } else { None }
}
impl From<InvalidStatusCodeError> for Error {
    #[verifier::external_body]
    fn from(e: InvalidStatusCodeError) -> (r: Error) { unimplemented!() }
}
impl StatusCode {
    #[verifier::external_body] pub fn to_u16(self) -> (r: u16) ensures r == status_code(self) { unimplemented!() }
'''
    t += C.fn(RESP, 'impl StatusCode :: fn new', 'StatusCode::new', ['C07', 'C06'], ret='r', spec='''
    ensures
        r is Ok <==> status_of(code) is Some, // @OBL StatusCode::new::closed_set [C07,C06] exactly the eight documented status codes are accepted; every other number is an error
        r is Ok ==> Some(r->Ok_0) == status_of(code), // @OBL StatusCode::new::mapping [C07] each accepted number maps to its documented status
''')
    t += '''}
impl Version {
    #[verifier::external_body] pub fn to_u16(self) -> (r: u16) ensures r as nat == version_code(self) { unimplemented!() }
'''
    t += C.fn(TYPES, 'impl Version :: fn new', 'Version::new', ['C07', 'C06'], ret='r', rewrites=[('X5', 'crate::Result', 'Result', 1)], spec='''
    ensures
        r is Ok <==> version == 1, // @OBL Version::new::closed_set [C07,C06] exactly version 1 is accepted; an unknown version is an error
        r is Ok ==> r->Ok_0 == Version::V1, // @OBL Version::new::mapping [C07] 1 maps to V1
''')
    t += '''}
'''
    t += SPEC
    t += '''
// version preamble reader / writer: ASSUMED here, PROVED by unit kani_wire (all 2^64 contents x every length) on the same extracted text
#[verifier::external_body]
pub async fn write_version_frame<T: AsyncWrite + Unpin>(send_stream: &mut T, version: Version) -> (r: Result<()>)
    ensures r is Ok ==> final(send_stream).out() == old(send_stream).out() + preamble(version), final(send_stream).id() == old(send_stream).id(),
{ unimplemented!() }
#[verifier::external_body]
pub async fn read_version_frame<T: AsyncRead + Unpin>(recv_stream: &mut T) -> (r: Result<Version>)
    ensures
        r is Ok <==> (old(recv_stream).remaining().len() >= 8 && old(recv_stream).remaining().subrange(0, 8) == preamble(Version::V1)),
        r is Ok ==> r->Ok_0 == Version::V1 && final(recv_stream).remaining() == old(recv_stream).remaining().subrange(8, old(recv_stream).remaining().len() as int),
{ unimplemented!() }
'''
    # ---- request types --------------------------------------------------------------------------------
    t += C.item(REQ, 'struct RequestHeader')
    t += C.item(REQ, 'struct RawRequestHeader')
    t += C.item(REQ, 'struct Request')
    t += '''
impl WireSpec for RawRequestHeader { uninterp spec fn ser(&self) -> Seq<u8>; uninterp spec fn de(b: Seq<u8>) -> Option<Self>; }
pub open spec fn raw_req(route: String, headers: HeaderMap) -> RawRequestHeader { RawRequestHeader { route, headers } }
'''
    t += 'impl RequestHeader {\n'
    t += C.fn(REQ, 'impl RequestHeader :: fn from_raw', 'RequestHeader::from_raw', ['C07', 'C01', 'C06'], ret='r',
              rewrites=[('X5', 'Default::default()', 'Extensions::default()', 1)], spec='''
    ensures
        r.route == raw_header.route && r.headers == raw_header.headers && r.version == version, // @OBL RequestHeader::from_raw::fields [C07] the decoded header carries exactly the route and headers that were on the wire and the version of the preamble
        r.extensions.is_empty_spec(), // @OBL RequestHeader::from_raw::no_extensions [C07,C01] a decoded request starts with no extensions: nothing in the message can supply local metadata such as a PeerId
''')
    t += '}\nimpl RawRequestHeader {\n'
    t += C.fn(REQ, 'impl RawRequestHeader :: fn from_header', 'RawRequestHeader::from_header', ['C07', 'C01'], ret='r', spec='''
    ensures
        r.route == header.route && r.headers == header.headers, // @OBL RawRequestHeader::from_header::fields [C07,C01] the wire header is exactly (route, headers): version and extensions are not part of it
''')
    t += '}\nimpl<T> Request<T> {\n'
    t += C.fn(REQ, 'impl <T> Request<T> :: fn from_parts', 'Request::from_parts', ['C07'], ret='r', spec='''
    ensures
        r.head == parts && r.body == body, // @OBL Request::from_parts::fields [C07] from_parts stores header and body unchanged
''')
    t += C.fn(REQ, 'impl <T> Request<T> :: fn into_parts', 'Request::into_parts', ['C07'], ret='r', spec='''
    ensures
        r.0 == self.head && r.1 == self.body, // @OBL Request::into_parts::fields [C07] into_parts returns header and body unchanged
''')
    t += C.fn(REQ, 'impl <T> Request<T> :: fn version', 'Request::version', ['C07'], ret='r', spec='''
    ensures
        r == self.head.version, // @OBL Request::version::field [C07] version() is the header's version
''')
    t += '}\n'
    # ---- response types -------------------------------------------------------------------------------
    t += C.item(RESP, 'struct ResponseHeader')
    t += C.item(RESP, 'struct RawResponseHeader')
    t += C.item(RESP, 'struct Response')
    t += '''
impl WireSpec for RawResponseHeader { uninterp spec fn ser(&self) -> Seq<u8>; uninterp spec fn de(b: Seq<u8>) -> Option<Self>; }
pub open spec fn raw_resp(status: u16, headers: HeaderMap) -> RawResponseHeader { RawResponseHeader { status, headers } }
'''
    t += 'impl ResponseHeader {\n'
    t += C.fn(RESP, 'impl ResponseHeader :: fn from_raw', 'ResponseHeader::from_raw', ['C07', 'C01', 'C06'], ret='r',
              rewrites=[('X5', 'Default::default()', 'Extensions::default()', 1)], spec='''
    ensures
        r is Ok <==> status_of(raw_header.status) is Some, // @OBL ResponseHeader::from_raw::unknown_status_rejected [C07,C06] an unknown status code is rejected with an error (never a panic, never a made-up status)
        r is Ok ==> Some(r->Ok_0.status) == status_of(raw_header.status) && r->Ok_0.headers == raw_header.headers && r->Ok_0.version == version, // @OBL ResponseHeader::from_raw::fields [C07] the decoded header carries exactly the status and headers that were on the wire
        r is Ok ==> r->Ok_0.extensions.is_empty_spec(), // @OBL ResponseHeader::from_raw::no_extensions [C07,C01] a decoded response starts with no extensions
''')
    t += '}\nimpl RawResponseHeader {\n'
    t += C.fn(RESP, 'impl RawResponseHeader :: fn from_header', 'RawResponseHeader::from_header', ['C07', 'C01'], ret='r', spec='''
    ensures
        r.0.status == status_code(header.status) && r.0.headers == header.headers, // @OBL RawResponseHeader::from_header::fields [C07,C01] the wire header is exactly (status number, headers)
        r.1 == header.extensions, // @OBL RawResponseHeader::from_header::extensions_kept_aside [C07] extensions are handed back to the caller, not encoded
''')
    t += '}\nimpl<T> Response<T> {\n'
    t += C.fn(RESP, 'impl <T> Response<T> :: fn from_parts', 'Response::from_parts', ['C07'], ret='r', spec='''
    ensures
        r.head == parts && r.body == body, // @OBL Response::from_parts::fields [C07] from_parts stores header and body unchanged
''')
    t += C.fn(RESP, 'impl <T> Response<T> :: fn into_parts', 'Response::into_parts', ['C07'], ret='r', spec='''
    ensures
        r.0 == self.head && r.1 == self.body, // @OBL Response::into_parts::fields [C07] into_parts returns header and body unchanged
''')
    t += C.fn(RESP, 'impl <T> Response<T> :: fn version', 'Response::version', ['C07'], ret='r', spec='''
    ensures
        r == self.head.version, // @OBL Response::version::field [C07] version() is the header's version
''')
    t += '}\n'
    # ---- config accessor + codec (C15) ----------------------------------------------------------------
    t += 'impl Config {\n'
    t += C.fn(CONFIG, 'impl Config :: fn max_frame_size', 'Config::max_frame_size', ['C15'], ret='r', spec='''
    ensures
        r == self.max_frame_size, // @OBL Config::max_frame_size::is_field [C15] the accessor returns the configured maximum unchanged
''')
    t += '}\n'
    t += '''
pub open spec fn no_limit() -> usize { usize::MAX }   // "no size limit is imposed": nothing a 4-byte length can announce is refused
'''
    t += C.fn(WIRE, 'fn network_message_frame_codec', 'network_message_frame_codec', ['C15', 'C07'], ret='r', spec='''
    ensures
        r.lfl == 4 && r.be && r.plain, // @OBL network_message_frame_codec::length_field [C07,C15] frames carry a 4-byte big-endian length prefix that counts exactly the payload
        config.max_frame_size is Some ==> r.max == config.max_frame_size->Some_0, // @OBL network_message_frame_codec::configured_limit [C15] a configured maximum frame size is the codec's limit, exactly
        config.max_frame_size is None ==> r.max == TOKIO_UTIL_DEFAULT_MAX_FRAME, // @OBL network_message_frame_codec::unconfigured_limit_is_tokio_default [C15] (fingerprint of the known finding) with no maximum configured the limit is tokio-util's 8 MiB default
''')
    # The clause of C15 that FAILS on the pinned tree (known finding) is kept OUT of the function's contract: Verus assumes every
    # postcondition of a callee at its call sites, so a false clause there would make the callers' proofs vacuous.  It is checked in a
    # caller of its own that nothing else uses.
    t += '''
fn obligation_no_limit_when_unconfigured(config: &Config)
    requires config.max_frame_size is None
{
    let codec = network_message_frame_codec(config);
    assert(codec.max == no_limit()); // @OBL network_message_frame_codec::no_limit_when_unconfigured [C15] with no maximum configured, no size limit is imposed
}
'''
    # ---- message writers / readers ----------------------------------------------------------------------
    codec_pre = '''
    requires
        old(%s).codec.lfl == 4 && old(%s).codec.be && old(%s).codec.plain,
'''
    t += C.fn(WIRE, 'fn write_request', 'write_request', ['C07', 'C15', 'C02'], ret='r', spec=codec_pre % ('send_stream', 'send_stream', 'send_stream') + '''
    ensures
        r is Ok ==> final(send_stream).inner.out() == old(send_stream).inner.out()
            + enc_message(request.head.version, raw_req(request.head.route, request.head.headers).ser(), request.body@), // @OBL write_request::layout [C07,C02] bytes written = preamble(version) ++ frame(bincode(route, headers)) ++ frame(body): nothing else, in this order, extensions not included
        r is Ok ==> raw_req(request.head.route, request.head.headers).ser().len() <= old(send_stream).codec.max
            && request.body@.len() <= old(send_stream).codec.max, // @OBL write_request::sender_enforces_limit [C15] a request whose header or body exceeds the local maximum is refused by the sender
        final(send_stream).codec == old(send_stream).codec && final(send_stream).inner.id() == old(send_stream).inner.id(), // @OBL write_request::codec_unchanged [C15,C02] writing changes neither the limit nor which stream is written to
''')
    t += C.fn(WIRE, 'fn write_response', 'write_response', ['C07', 'C15', 'C02'], ret='r', spec=codec_pre % ('send_stream', 'send_stream', 'send_stream') + '''
    ensures
        r is Ok ==> final(send_stream).inner.out() == old(send_stream).inner.out()
            + enc_message(response.head.version, raw_resp(status_code(response.head.status), response.head.headers).ser(), response.body@), // @OBL write_response::layout [C07,C02] bytes written = preamble(version) ++ frame(bincode(status number, headers)) ++ frame(body)
        r is Ok ==> response.body@.len() <= old(send_stream).codec.max, // @OBL write_response::sender_enforces_limit [C15] a response whose body exceeds the local maximum is refused by the sender
        final(send_stream).codec == old(send_stream).codec && final(send_stream).inner.id() == old(send_stream).inner.id(), // @OBL write_response::codec_unchanged [C15,C02] writing changes neither the limit nor which stream is written to
''')
    t += C.fn(WIRE, 'fn read_request', 'read_request', ['C07', 'C06', 'C15', 'C02'], ret='r',
              spec=codec_pre % ('recv_stream', 'recv_stream', 'recv_stream') + '''        old(recv_stream).buffered@.len() == 0,
    ensures
        r is Ok <==> ({
            let d = dec_message(old(recv_stream).inner.remaining(), old(recv_stream).codec.max as nat);
            d is Some && RawRequestHeader::de(d->Some_0.0) is Some
        }), // @OBL read_request::accepts_exactly_valid_messages [C07,C06,C15] the reader succeeds on exactly the byte strings that are preamble ++ frame ++ frame with both frames within the local maximum and a decodable header; everything else (short input, other preamble, unknown version, oversized or truncated frame, undecodable header) is an error
        r is Ok ==> ({
            let d = dec_message(old(recv_stream).inner.remaining(), old(recv_stream).codec.max as nat)->Some_0;
            let raw = RawRequestHeader::de(d.0)->Some_0;
            r->Ok_0.head.route == raw.route && r->Ok_0.head.headers == raw.headers && r->Ok_0.body@ == d.1 && r->Ok_0.head.version == Version::V1
        }), // @OBL read_request::fields [C07,C02] the decoded request is exactly (route, headers) of the header frame, the bytes of the body frame and the preamble's version
        final(recv_stream).codec == old(recv_stream).codec, // @OBL read_request::codec_unchanged [C15] reading does not change the limit
        r is Ok ==> r->Ok_0.head.extensions.is_empty_spec(), // @OBL read_request::no_extensions [C07,C01] nothing carried in the message ends up in the request's extensions
''')
    t += C.fn(WIRE, 'fn read_response', 'read_response', ['C07', 'C06', 'C15', 'C02'], ret='r',
              spec=codec_pre % ('recv_stream', 'recv_stream', 'recv_stream') + '''        old(recv_stream).buffered@.len() == 0,
    ensures
        r is Ok <==> ({
            let d = dec_message(old(recv_stream).inner.remaining(), old(recv_stream).codec.max as nat);
            d is Some && RawResponseHeader::de(d->Some_0.0) is Some && status_of(RawResponseHeader::de(d->Some_0.0)->Some_0.status) is Some
        }), // @OBL read_response::accepts_exactly_valid_messages [C07,C06,C15] the reader succeeds on exactly: valid layout, frames within the local maximum, decodable header, known status code
        r is Ok ==> ({
            let d = dec_message(old(recv_stream).inner.remaining(), old(recv_stream).codec.max as nat)->Some_0;
            let raw = RawResponseHeader::de(d.0)->Some_0;
            Some(r->Ok_0.head.status) == status_of(raw.status) && r->Ok_0.head.headers == raw.headers && r->Ok_0.body@ == d.1 && r->Ok_0.head.version == Version::V1
        }), // @OBL read_response::fields [C07,C02] the decoded response is exactly status and headers of the header frame and the bytes of the body frame
        final(recv_stream).codec == old(recv_stream).codec, // @OBL read_response::codec_unchanged [C15] reading does not change the limit
        r is Ok ==> r->Ok_0.head.extensions.is_empty_spec(), // @OBL read_response::no_extensions [C07,C01] nothing carried in the message ends up in the response's extensions
''')
    t += prelude.peer_types(C) + streams_parts.build(C)
    t += C.helpers_here()
    t += '''
// ---------------- end-to-end lemmas over the contracts above (C07: lossless round trip, strict prefixes rejected) ----------------
pub proof fn lemma_request_roundtrip(route: String, headers: HeaderMap, body: Seq<u8>, max: nat) // @FNOBL lemma::request_roundtrip [C07] what write_request produces for (route, headers, body), read_request (same or larger limit) decodes to exactly (route, headers, body): contracts of writer and reader plus the bincode inverse law
    requires raw_req(route, headers).ser().len() <= max, body.len() <= max, max < 4294967296
    ensures ({
        let wire = enc_message(Version::V1, raw_req(route, headers).ser(), body);
        let d = dec_message(wire, max);
        &&& d is Some && d->Some_0.1 == body && d->Some_0.2.len() == 0
        &&& RawRequestHeader::de(d->Some_0.0) == Some(raw_req(route, headers))
    })
{
    broadcast use axiom_bincode_inverse;
    lemma_message_roundtrip(Version::V1, raw_req(route, headers).ser(), body, max);
}
pub proof fn lemma_response_roundtrip(status: StatusCode, headers: HeaderMap, body: Seq<u8>, max: nat) // @FNOBL lemma::response_roundtrip [C07] what write_response produces for (status, headers, body), read_response decodes to exactly that status, headers and body
    requires raw_resp(status_code(status), headers).ser().len() <= max, body.len() <= max, max < 4294967296
    ensures ({
        let wire = enc_message(Version::V1, raw_resp(status_code(status), headers).ser(), body);
        let d = dec_message(wire, max);
        &&& d is Some && d->Some_0.1 == body && d->Some_0.2.len() == 0
        &&& RawResponseHeader::de(d->Some_0.0) == Some(raw_resp(status_code(status), headers))
        &&& status_of(status_code(status)) == Some(status)
    })
{
    broadcast use axiom_bincode_inverse;
    lemma_message_roundtrip(Version::V1, raw_resp(status_code(status), headers).ser(), body, max);
}
pub proof fn lemma_oversized_frame_refused(x: Seq<u8>, rest: Seq<u8>, max: nat) // @FNOBL lemma::oversized_frame_refused [C15,C06] a frame announcing more than the receiver's maximum is refused on arrival, whatever follows; one of exactly the maximum is accepted
    requires x.len() < 4294967296
    ensures x.len() > max ==> take_frame(frame(x) + rest, max) is None,
            x.len() <= max ==> take_frame(frame(x) + rest, max) == Some((x, rest)),
{
    lemma_be32_roundtrip(x.len());
    let s = frame(x) + rest;
    assert(s[0] == be32(x.len())[0] && s[1] == be32(x.len())[1] && s[2] == be32(x.len())[2] && s[3] == be32(x.len())[3]);
    assert(be32_dec(s) == x.len());
    if x.len() <= max { lemma_take_frame_of_frame(x, rest, max); }
}

fn main() {}
} // verus!
'''
    return t
