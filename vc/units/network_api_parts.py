"""Third part of unit active_peers: the application-facing calls of network/mod.rs that C09's explicit-disconnect sentence is about:
NetworkInner::{disconnect, peer, rpc}, and the calls that go through the connection manager's mailbox: NetworkInner::{connect, shutdown, is_closed} (C08, C03).
The weak handle on the active-peer set (ActivePeersRef) is modelled as `live` + the set (X8); the sending half of the manager's mailbox
(tokio mpsc::Sender) as `closed` + a ghost log of the requests delivered: `send().await` waits for room and fails only when the receiving half is gone,
`try_send()` may fail on a full mailbox although the network is up."""
import prelude as P

NET = 'crates/anemo/src/network/mod.rs'
CM = 'crates/anemo/src/network/connection_manager.rs'


def await_receiver(e):
    """X5: `<receiver>.await` on a oneshot receiver -> `<receiver>.resolved().await` (the stand-in receiver is not a Future)"""
    import re
    t2, k = re.subn(r'\breceiver\s*\.\s*await\b', 'receiver.resolved().await', e.text)
    if k:
        e.text = t2
        e.log('X5', '`receiver.await` rendered as `receiver.resolved().await` (x%d)' % k)


def listing_chain(e):
    """X11 + X8: `.as_ref().map(ActivePeers::peers)` -> `.map(|p| p.peers())` (the stand-in handle is a `&mut`, not an Arc: no `as_ref`; the function path is
    eta-expanded) and `.unwrap_or_default()` -> `.unwrap_or(Vec::new())` (the default of a Vec is the empty Vec)"""
    import re
    ANN = {'peers': '|p: &mut ActivePeers| -> (v: Vec<PeerId>) ensures v@.to_set() =~= old(p).0.connections@.dom(), v@.no_duplicates(), final(p).0 == old(p).0, final(p).1@ == old(p).1@ + 1 { p.peers() }',
           'subscribe': '|p: &mut ActivePeers| -> (v: (Receiver, Vec<PeerId>)) ensures v.0.start@ == old(p).0.peer_event_sender.log@.len(), v.1@.to_set() =~= old(p).0.connections@.dom(), v.1@.no_duplicates(), final(p).0 == old(p).0, final(p).1@ == old(p).1@ + 1 { p.subscribe() }'}
    k1 = 0
    def _ann(m):
        nonlocal k1
        k1 += 1
        return '.map(%s)' % ANN.get(m.group(1), '|p| p.%s()' % m.group(1))
    t2 = re.sub(r'\.as_ref\(\)\s*\.map\(\s*ActivePeers::(\w+)\s*\)', _ann, e.text)
    t2, k2 = re.subn(r'\.unwrap_or_default\(\)', '.unwrap_or(Vec::new())', t2)
    if k1 or k2:
        e.text = t2
        e.log('X11', '`.as_ref().map(ActivePeers::peers)` eta-expanded on the `&mut` handle (x%d); `.unwrap_or_default()` -> `.unwrap_or(Vec::new())` (x%d)' % (k1, k2))


def eta_into(e):
    import re
    t3, k3 = re.subn(r'\|_\|', '|_unused|', e.text)
    if k3:
        e.text = t3
        e.log('X9', '`|_|` closure parameter named (x%d)' % k3)
    t2, k = re.subn(r'\.map_err\(Into::into\)', '.map_err(|e| Error::from(e))', e.text)
    if k:
        e.text = t2
        e.log('X11', '`.map_err(Into::into)` eta-expanded')

STANDINS = r'''
// ---------- trusted stand-ins for the network handle ----------
// ActivePeersRef = Weak<RwLock<ActivePeersInner>>: upgradable while the network is alive
pub struct ActivePeersRef { pub live: bool, pub set: ActivePeers }
impl ActivePeersRef {
    #[verifier::external_body]
    pub fn upgrade(&mut self) -> (r: Option<&mut ActivePeers>)
        ensures r is Some <==> old(self).live,
                r is Some ==> *r->Some_0 == old(self).set && final(self).set == *final(r->Some_0) && final(self).live == old(self).live,
                r is None ==> *final(self) == *old(self),
    { unimplemented!() }
}
// tokio::sync::mpsc::Sender<ConnectionManagerRequest>
pub struct MailboxSender { pub closed: bool, pub delivered: Ghost<Seq<ConnectionManagerRequest>> }
pub struct SendError<T> { pub v: T }
pub enum TrySendError<T> { Full(T), Closed(T) }
impl MailboxSender {
    #[verifier::external_body]
    pub async fn send(&mut self, req: ConnectionManagerRequest) -> (r: core::result::Result<(), SendError<ConnectionManagerRequest>>)
        ensures final(self).closed == old(self).closed,
                !old(self).closed ==> r is Ok && final(self).delivered@ == old(self).delivered@.push(req),
                old(self).closed ==> r is Err && final(self).delivered@ == old(self).delivered@ { unimplemented!() }
    #[verifier::external_body]
    pub fn try_send(&mut self, req: ConnectionManagerRequest) -> (r: core::result::Result<(), TrySendError<ConnectionManagerRequest>>)
        ensures final(self).closed == old(self).closed,
                r is Ok ==> !old(self).closed && final(self).delivered@ == old(self).delivered@.push(req),
                r is Err ==> final(self).delivered@ == old(self).delivered@,
                old(self).closed ==> r is Err { unimplemented!() }
    #[verifier::external_body]
    pub fn is_closed(&self) -> (r: bool) ensures r == self.closed { unimplemented!() }
}
impl From<oneshot::RecvError> for Error { #[verifier::external_body] fn from(e: oneshot::RecvError) -> (r: Error) { unimplemented!() } }
pub struct OutboundRequestLayer { pub id: u64 }      // the layer stack Builder::start built (unit timeout proves what it contains)
impl OutboundRequestLayer { #[verifier::external_body] pub fn clone(&self) -> (r: Self) ensures r == *self { unimplemented!() } }
pub struct Bytes { pub v: Vec<u8> }
pub struct Request<T> { pub body: T }
pub struct Response<T> { pub body: T }
pub struct Peer { pub connection: Connection, pub layer: OutboundRequestLayer }
impl Peer {
    #[verifier::external_body]
    pub fn new(connection: Connection, outbound_request_layer: OutboundRequestLayer, config: Config) -> (r: Peer) ensures r.connection == connection, r.layer == outbound_request_layer { unimplemented!() }
    #[verifier::external_body]
    pub async fn rpc(&mut self, request: Request<Bytes>) -> (r: Result<Response<Bytes>>) { unimplemented!() }
}
'''


def build(C):
    t = C.item(CM, 'enum ConnectionManagerRequest', derives=False) + STANDINS
    t += C.item(NET, 'struct NetworkInner', rewrites=[
        ('X5', 'Arc<Config>', 'Config', 1), ('X5', 'Arc<Endpoint>', 'Endpoint', 1),
        ('X5', 'mpsc::Sender<ConnectionManagerRequest>', 'MailboxSender', 1)])
    t += 'impl NetworkInner {\n'
    t += C.fn(NET, 'impl NetworkInner :: fn disconnect', 'NetworkInner::disconnect', ['C09', 'C08'], ret='r', sig_rewrites=[('&self', '&mut self')], spec='''
    ensures
        old(self).active_peers.live ==> r is Ok && final(self).active_peers.set.0.view() =~~= rm_spec(old(self).active_peers.set.0.view(), peer_id, DisconnectReason::Requested), // @OBL NetworkInner::disconnect::removes_at_once_with_requested [C09] an explicit disconnect removes the peer locally at once, closes that connection and announces exactly LostPeer(peer, Requested) (nothing if the peer was not connected)
        old(self).active_peers.live ==> final(self).active_peers.set.1@ == old(self).active_peers.set.1@ + 1, // @OBL NetworkInner::disconnect::one_critical_section [C09] ... in one critical section
        !old(self).active_peers.live ==> r is Err && final(self).active_peers == old(self).active_peers, // @OBL NetworkInner::disconnect::closed_network_errors [C09,C08] on a network that has shut down the call fails and changes nothing
''')
    t += C.fn(NET, 'impl NetworkInner :: fn peer', 'NetworkInner::peer', ['C09', 'C08'], ret='r', sig_rewrites=[('&self', '&mut self')], spec='''
    ensures
        r is Some <==> (old(self).active_peers.live && old(self).active_peers.set.0.connections@.contains_key(peer_id)), // @OBL NetworkInner::peer::listed_iff_connected [C09,C08] a peer handle is handed out iff that peer is in the connected set right now
        r is Some ==> r->Some_0.connection == old(self).active_peers.set.0.connections@[peer_id], // @OBL NetworkInner::peer::uses_registered_connection [C09,C04] RPCs to a peer go over the one registered connection of that peer
        final(self).active_peers.set.0 == old(self).active_peers.set.0, // @OBL NetworkInner::peer::read_only [C09] looking a peer up changes nothing
        r is Some ==> r->Some_0.layer == old(self).outbound_request_layer, // @OBL NetworkInner::peer::carries_the_network_outbound_layer [C11] every peer handle a network hands out sends its RPCs through the network's outbound layer stack (the one Builder::start built with the configured default timeout)
''')
    t += C.fn(NET, 'impl NetworkInner :: fn rpc', 'NetworkInner::rpc', ['C09', 'C08'], ret='r', sig_rewrites=[('&self', '&mut self')], spec='''
    ensures
        !(old(self).active_peers.live && old(self).active_peers.set.0.connections@.contains_key(peer_id)) ==> r is Err, // @OBL NetworkInner::rpc::fails_when_not_connected [C09,C08] after a disconnect (and generally whenever the peer is not in the connected set) an RPC to it fails instead of being sent
        final(self).active_peers.set.0 == old(self).active_peers.set.0, // @OBL NetworkInner::rpc::leaves_the_connected_set_alone [C04,C05,C09] sending a request, whatever its outcome, neither registers nor removes nor closes a connection: a request that fails on a replaced connection cannot evict the replacement
''')
    RW = [dict(rule='X5', pattern='ConnectionManagerRequest::', repl='ConnectionManagerRequest::', optional=True)]
    t += C.fn(NET, 'impl NetworkInner :: fn connect', 'NetworkInner::connect', ['C08', 'C03'], ret='r', sig_rewrites=[('&self', '&mut self')], transforms=[await_receiver, eta_into], rewrites=RW, spec='''
    ensures
        old(self).connection_manager_handle.closed ==> r is Err && final(self).connection_manager_handle.delivered@ == old(self).connection_manager_handle.delivered@, // @OBL NetworkInner::connect::closed_network_errors [C08] on a network that has shut down a dial fails (it is not queued, it does not hang)
        !old(self).connection_manager_handle.closed ==> final(self).connection_manager_handle.delivered@.len() == old(self).connection_manager_handle.delivered@.len() + 1
            && final(self).connection_manager_handle.delivered@.last() is ConnectRequest
            && final(self).connection_manager_handle.delivered@.last()->ConnectRequest_0 == addr && final(self).connection_manager_handle.delivered@.last()->ConnectRequest_1 == peer_id, // @OBL NetworkInner::connect::request_reaches_the_manager_unchanged [C03,C08] on a live network exactly one dial request reaches the connection manager, for exactly the address and exactly the expected identity (or none) the caller named
''')
    t += C.fn(NET, 'impl NetworkInner :: fn shutdown', 'NetworkInner::shutdown', ['C08'], ret='r', sig_rewrites=[('&self', '&mut self')], transforms=[await_receiver, eta_into], rewrites=RW, spec='''
    ensures
        old(self).connection_manager_handle.closed ==> r is Err && final(self).connection_manager_handle.delivered@ == old(self).connection_manager_handle.delivered@, // @OBL NetworkInner::shutdown::closed_network_errors [C08] shutting down a network that is already gone fails (it neither hangs nor reports success)
        !old(self).connection_manager_handle.closed ==> final(self).connection_manager_handle.delivered@.len() == old(self).connection_manager_handle.delivered@.len() + 1
            && final(self).connection_manager_handle.delivered@.last() is Shutdown, // @OBL NetworkInner::shutdown::request_always_reaches_the_manager [C08] on a live network the shutdown request ALWAYS reaches the connection manager, whatever else is queued in its mailbox: the call waits for room instead of giving up
''')
    t += C.fn(NET, 'impl NetworkInner :: fn peers', 'NetworkInner::peers', ['C04', 'C08'], ret='r', sig_rewrites=[('&self', '&mut self')], transforms=[listing_chain], spec='''
    ensures
        old(self).active_peers.live ==> r@.to_set() =~= old(self).active_peers.set.0.connections@.dom() && r@.no_duplicates(), // @OBL NetworkInner::peers::is_the_connected_set [C04,C09] the listing a network hands out is exactly the set of peers with a registered connection, each once
        !old(self).active_peers.live ==> r@.len() == 0, // @OBL NetworkInner::peers::closed_network_lists_nobody [C08] a network that has shut down lists no peers
        final(self).active_peers.set.0 == old(self).active_peers.set.0, // @OBL NetworkInner::peers::read_only [C04] listing changes nothing
''')
    t += C.fn(NET, 'impl NetworkInner :: fn is_closed', 'NetworkInner::is_closed', ['C08'], ret='r', spec='''
    ensures
        r == self.connection_manager_handle.closed, // @OBL NetworkInner::is_closed::mailbox_closed [C08] a network reports closed exactly when its connection manager is gone
''')
    t += '}\n'
    # ---- the public handle (network/mod.rs `impl Network`): thin delegations, but the link every application call goes through ----
    t += C.item(NET, 'struct Network', derives=False, rewrites=[('X5', 'Arc<NetworkInner>', 'NetworkInner', 1)])
    t += 'impl Network {\n'
    GENA = [dict(rule='X5', pattern='<A: Into<Address>>', repl=''), dict(rule='X5', pattern='addr: A', repl='addr: Address'), dict(rule='X5', pattern='addr.into()', repl='addr')]
    MB = 'self.0.connection_manager_handle'
    t += C.fn(NET, 'impl Network :: fn connect', 'Network::connect', ['C03', 'C08'], ret='r', sig_rewrites=[('&self', '&mut self')], rewrites=GENA, spec='''
    ensures
        old(self).0.connection_manager_handle.closed ==> r is Err, // @OBL Network::connect::closed_network_errors [C08] a dial on a network that has shut down fails
        !old(self).0.connection_manager_handle.closed ==> final(self).0.connection_manager_handle.delivered@.len() == old(self).0.connection_manager_handle.delivered@.len() + 1
            && final(self).0.connection_manager_handle.delivered@.last() is ConnectRequest && final(self).0.connection_manager_handle.delivered@.last()->ConnectRequest_0 == addr
            && final(self).0.connection_manager_handle.delivered@.last()->ConnectRequest_1 is None, // @OBL Network::connect::asks_for_no_particular_identity [C03] a dial by address alone asks the manager for that address and names no identity
''')
    t += C.fn(NET, 'impl Network :: fn connect_with_peer_id', 'Network::connect_with_peer_id', ['C03', 'C08'], ret='r', sig_rewrites=[('&self', '&mut self')], rewrites=GENA, spec='''
    ensures
        old(self).0.connection_manager_handle.closed ==> r is Err, // @OBL Network::connect_with_peer_id::closed_network_errors [C08] a dial on a network that has shut down fails
        !old(self).0.connection_manager_handle.closed ==> final(self).0.connection_manager_handle.delivered@.len() == old(self).0.connection_manager_handle.delivered@.len() + 1
            && final(self).0.connection_manager_handle.delivered@.last() is ConnectRequest && final(self).0.connection_manager_handle.delivered@.last()->ConnectRequest_0 == addr
            && final(self).0.connection_manager_handle.delivered@.last()->ConnectRequest_1 == Some(peer_id), // @OBL Network::connect_with_peer_id::asks_for_exactly_that_identity [C03] a dial that names the identity it expects asks the connection manager for exactly that identity at exactly that address (the manager pins the TLS verifier on it: ConnectionManager::dial_peer_task, Endpoint::connect_with_expected_peer_id)
''')
    t += C.fn(NET, 'impl Network :: fn peers', 'Network::peers', ['C04', 'C08'], ret='r', sig_rewrites=[('&self', '&mut self')], spec='''
    ensures
        old(self).0.active_peers.live ==> r@.to_set() =~= old(self).0.active_peers.set.0.connections@.dom() && r@.no_duplicates(), // @OBL Network::peers::is_the_connected_set [C04,C05,C09] the public connected-peer listing is exactly the set of peers with a registered connection: no duplicates, nobody else, nobody missing
        !old(self).0.active_peers.live ==> r@.len() == 0, // @OBL Network::peers::closed_network_lists_nobody [C08] after shutdown the network lists no peers
''')
    t += C.fn(NET, 'impl Network :: fn subscribe', 'Network::subscribe', ['C04', 'C08'], ret='r', sig_rewrites=[('&self', '&mut self')], transforms=[listing_chain, eta_into],
              rewrites=[dict(rule='X5', pattern='broadcast::Receiver<PeerEvent>', repl='Receiver', optional=True)], spec='''
    ensures
        old(self).0.active_peers.live ==> r is Ok && r->Ok_0.0.start@ == old(self).0.active_peers.set.0.peer_event_sender.log@.len()
            && r->Ok_0.1@.to_set() =~= old(self).0.active_peers.set.0.connections@.dom() && r->Ok_0.1@.no_duplicates(), // @OBL Network::subscribe::snapshot_and_stream_from_one_instant [C04] a subscriber gets the listing of one instant together with a receiver that sees exactly the events after that instant: the event stream is an exact change log of the listing it was handed
        old(self).0.active_peers.live ==> final(self).0.active_peers.set.1@ == old(self).0.active_peers.set.1@ + 1, // @OBL Network::subscribe::one_critical_section [C04] ... taken in ONE critical section
        !old(self).0.active_peers.live ==> r is Err, // @OBL Network::subscribe::closed_network_errors [C08] subscribing to a network that has shut down fails
''')
    t += C.fn(NET, 'impl Network :: fn peer', 'Network::peer', ['C09', 'C08', 'C04'], ret='r', sig_rewrites=[('&self', '&mut self')], spec='''
    ensures
        r is Some <==> (old(self).0.active_peers.live && old(self).0.active_peers.set.0.connections@.contains_key(peer_id)), // @OBL Network::peer::listed_iff_connected [C09,C08] the public call hands out a peer handle iff that peer is connected right now
        r is Some ==> r->Some_0.connection == old(self).0.active_peers.set.0.connections@[peer_id] && r->Some_0.layer == old(self).0.outbound_request_layer, // @OBL Network::peer::registered_connection_and_network_layer [C04,C11] over the one registered connection of that peer, through the network's outbound layer stack
''')
    t += C.fn(NET, 'impl Network :: fn rpc', 'Network::rpc', ['C09', 'C08'], ret='r', sig_rewrites=[('&self', '&mut self')], spec='''
    ensures
        !(old(self).0.active_peers.live && old(self).0.active_peers.set.0.connections@.contains_key(peer)) ==> r is Err, // @OBL Network::rpc::fails_when_not_connected [C09,C08] an RPC to a peer that is not connected (after a disconnect, after shutdown) fails instead of being sent
        final(self).0.active_peers.set.0 == old(self).0.active_peers.set.0, // @OBL Network::rpc::leaves_the_connected_set_alone [C04,C05,C09] sending a request never changes the connected set
''')
    t += C.fn(NET, 'impl Network :: fn disconnect', 'Network::disconnect', ['C09', 'C08'], ret='r', sig_rewrites=[('&self', '&mut self')], spec='''
    ensures
        old(self).0.active_peers.live ==> r is Ok && final(self).0.active_peers.set.0.view() =~~= rm_spec(old(self).0.active_peers.set.0.view(), peer, DisconnectReason::Requested), // @OBL Network::disconnect::is_the_inner_transition [C09] the public disconnect IS the removal with reason Requested
        !old(self).0.active_peers.live ==> r is Err, // @OBL Network::disconnect::closed_network_errors [C09,C08] on a network that has shut down the call fails
''')
    t += C.fn(NET, 'impl Network :: fn shutdown', 'Network::shutdown', ['C08'], ret='r', sig_rewrites=[('&self', '&mut self')], spec='''
    ensures
        old(self).0.connection_manager_handle.closed ==> r is Err, // @OBL Network::shutdown::closed_network_errors [C08] shutting down a network that is already gone fails
        !old(self).0.connection_manager_handle.closed ==> final(self).0.connection_manager_handle.delivered@.len() == old(self).0.connection_manager_handle.delivered@.len() + 1
            && final(self).0.connection_manager_handle.delivered@.last() is Shutdown, // @OBL Network::shutdown::request_always_reaches_the_manager [C08] the public shutdown delivers its request to the connection manager
''')
    t += C.fn(NET, 'impl Network :: fn is_closed', 'Network::is_closed', ['C08'], ret='r', spec='''
    ensures
        r == self.0.connection_manager_handle.closed, // @OBL Network::is_closed::mailbox_closed [C08] a network reports closed exactly when its connection manager is gone
''')
    t += '}\n'
    return t
