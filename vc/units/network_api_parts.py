"""Third part of unit active_peers: the application-facing calls of network/mod.rs that C09's explicit-disconnect sentence is about:
NetworkInner::{disconnect, peer, rpc}.  The weak handle on the active-peer set (ActivePeersRef) is modelled as `live` + the set (X8)."""
import prelude as P

NET = 'crates/anemo/src/network/mod.rs'

STANDINS = r'''
// ---------- trusted stand-ins for the network handle ----------
// ActivePeersRef = Weak<RwLock<ActivePeersInner>>: upgradable while the network is alive
pub struct ActivePeersRef { pub live: bool, pub set: ActivePeers }
impl ActivePeersRef {
    #[verifier::external_body]
    pub fn upgrade(&mut self) -> (r: Option<&mut ActivePeers>)
        ensures r is Some <==> old(self).live,
                r is Some ==> *r->Some_0 == old(self).set && final(self).set == *final(r->Some_0) && final(self).live == old(self).live,
                r is None ==> *final(self) == *old(self),
    { unimplemented!() }
}
pub struct OutboundRequestLayer { pub id: u64 }      // the layer stack Builder::start built (unit timeout proves what it contains)
impl OutboundRequestLayer { #[verifier::external_body] pub fn clone(&self) -> (r: Self) ensures r == *self { unimplemented!() } }
pub struct Bytes { pub v: Vec<u8> }
pub struct Request<T> { pub body: T }
pub struct Response<T> { pub body: T }
pub struct Peer { pub connection: Connection, pub layer: OutboundRequestLayer }
impl Peer {
    #[verifier::external_body]
    pub fn new(connection: Connection, outbound_request_layer: OutboundRequestLayer, config: Config) -> (r: Peer) ensures r.connection == connection, r.layer == outbound_request_layer { unimplemented!() }
    #[verifier::external_body]
    pub async fn rpc(&mut self, request: Request<Bytes>) -> (r: Result<Response<Bytes>>) { unimplemented!() }
}
'''


def build(C):
    t = STANDINS
    t += C.item(NET, 'struct NetworkInner', rewrites=[
        ('X5', 'Arc<Config>', 'Config', 1), ('X5', 'Arc<Endpoint>', 'Endpoint', 1),
        ('X5', 'mpsc::Sender<ConnectionManagerRequest>', 'Mailbox', 1)])
    t += 'impl NetworkInner {\n'
    t += C.fn(NET, 'impl NetworkInner :: fn disconnect', 'NetworkInner::disconnect', ['C09', 'C08'], ret='r', sig_rewrites=[('&self', '&mut self')], spec='''
    ensures
        old(self).active_peers.live ==> r is Ok && final(self).active_peers.set.0.view() =~~= rm_spec(old(self).active_peers.set.0.view(), peer_id, DisconnectReason::Requested), // @OBL NetworkInner::disconnect::removes_at_once_with_requested [C09] an explicit disconnect removes the peer locally at once, closes that connection and announces exactly LostPeer(peer, Requested) (nothing if the peer was not connected)
        old(self).active_peers.live ==> final(self).active_peers.set.1@ == old(self).active_peers.set.1@ + 1, // @OBL NetworkInner::disconnect::one_critical_section [C09] ... in one critical section
        !old(self).active_peers.live ==> r is Err && final(self).active_peers == old(self).active_peers, // @OBL NetworkInner::disconnect::closed_network_errors [C09,C08] on a network that has shut down the call fails and changes nothing
''')
    t += C.fn(NET, 'impl NetworkInner :: fn peer', 'NetworkInner::peer', ['C09', 'C08'], ret='r', sig_rewrites=[('&self', '&mut self')], spec='''
    ensures
        r is Some <==> (old(self).active_peers.live && old(self).active_peers.set.0.connections@.contains_key(peer_id)), // @OBL NetworkInner::peer::listed_iff_connected [C09,C08] a peer handle is handed out iff that peer is in the connected set right now
        r is Some ==> r->Some_0.connection == old(self).active_peers.set.0.connections@[peer_id], // @OBL NetworkInner::peer::uses_registered_connection [C09,C04] RPCs to a peer go over the one registered connection of that peer
        final(self).active_peers.set.0 == old(self).active_peers.set.0, // @OBL NetworkInner::peer::read_only [C09] looking a peer up changes nothing
        r is Some ==> r->Some_0.layer == old(self).outbound_request_layer, // @OBL NetworkInner::peer::carries_the_network_outbound_layer [C11] every peer handle a network hands out sends its RPCs through the network's outbound layer stack (the one Builder::start built with the configured default timeout)
''')
    t += C.fn(NET, 'impl NetworkInner :: fn rpc', 'NetworkInner::rpc', ['C09', 'C08'], ret='r', sig_rewrites=[('&self', '&mut self')], spec='''
    ensures
        !(old(self).active_peers.live && old(self).active_peers.set.0.connections@.contains_key(peer_id)) ==> r is Err, // @OBL NetworkInner::rpc::fails_when_not_connected [C09,C08] after a disconnect (and generally whenever the peer is not in the connected set) an RPC to it fails instead of being sent
        final(self).active_peers.set.0 == old(self).active_peers.set.0, // @OBL NetworkInner::rpc::leaves_the_connected_set_alone [C04,C05,C09] sending a request, whatever its outcome, neither registers nor removes nor closes a connection: a request that fails on a replaced connection cannot evict the replacement
''')
    t += '}\n'
    return t
