"""Unit kani_poll (Kani, complete: one poll of a two-future state machine, all states): `ResponseFuture::poll` of the inbound and outbound
timeout middlewares and of the authorization layer -- the `pin_project!` code Verus cannot take.  The REAL pin-project-lite crate is used
(same version as /repo's Cargo.lock); inner future and timer are stand-ins that are ready or pending as the harness chooses.
C11: "a handler needing less is answered normally, one needing more is cut off at that deadline - the serving side replies RequestTimeout,
the calling side returns a timeout error".  C20: "a refused request receives exactly the authorizer's response"."""
NAME = 'kani_poll'
BACKEND = 'kani'
DEPS = 'pin-project-lite = "0.2"'
INB = 'crates/anemo/src/middleware/timeout/inbound.rs'
OUTB = 'crates/anemo/src/middleware/timeout/outbound.rs'
MOD = 'crates/anemo/src/middleware/timeout/mod.rs'
AUTHF = 'crates/anemo-tower/src/auth/future.rs'
RESP = 'crates/anemo/src/types/response.rs'

PRELUDE = r'''// GENERATED on every run by /verif/vc from /repo's working tree -- do not edit
#![allow(dead_code, unused, non_upper_case_globals)]
use pin_project_lite::pin_project;
use std::future::Future;
use std::pin::Pin;
use std::task::{Context, Poll};
// ---------- stand-ins (executable) ----------
#[derive(Debug, PartialEq)]
pub struct Error { pub timeout: bool }
impl From<TimeoutExpired> for Error { fn from(_: TimeoutExpired) -> Self { Error { timeout: true } } }
pub struct InnerErr;
impl From<InnerErr> for Error { fn from(_: InnerErr) -> Self { Error { timeout: false } } }
#[derive(Debug, PartialEq, Clone)]
pub struct Bytes(pub u8);
impl Bytes { pub fn new() -> Self { Bytes(0) } }
#[derive(Debug, PartialEq)]
pub struct Response<T> { pub status: StatusCode, pub body: T, pub tag: u8 }
impl<T> Response<T> {
    pub fn new(body: T) -> Self { Response { status: StatusCode::Success, body, tag: 0 } }
    pub fn with_status(mut self, status: StatusCode) -> Self { self.status = status; self }
}
// tokio::time::Sleep: fires or not, as the harness says
pub struct Sleep { pub fired: bool }
impl Future for Sleep { type Output = (); fn poll(self: Pin<&mut Self>, _cx: &mut Context<'_>) -> Poll<()> { if self.fired { Poll::Ready(()) } else { Poll::Pending } } }
// the wrapped service's future: ready with a value, or pending
pub struct Inner<T> { pub ready: Option<T> }
impl<T: Unpin> Future for Inner<T> { type Output = T; fn poll(mut self: Pin<&mut Self>, _cx: &mut Context<'_>) -> Poll<T> { match self.ready.take() { Some(v) => Poll::Ready(v), None => Poll::Pending } } }
pub mod futures { macro_rules! ready { ($e:expr) => { match $e { std::task::Poll::Ready(t) => t, std::task::Poll::Pending => return std::task::Poll::Pending } } } pub(crate) use ready; }
pub fn poll_once<F: Future>(f: Pin<&mut F>) -> Poll<F::Output> { let mut cx = Context::from_waker(std::task::Waker::noop()); f.poll(&mut cx) }
'''

HARNESS = r'''
#[cfg(kani)]
mod harness {
    use super::*;
    fn any_sleep() -> Option<Sleep> { if kani::any() { Some(Sleep { fired: kani::any() }) } else { None } }
    #[kani::proof]
    fn inbound_poll() { // @KOBL [C11] one poll of the serving side's timeout future, every state: a handler that has finished is answered normally (even if the deadline has passed too); otherwise, once the deadline has passed the reply is an empty RequestTimeout response and the handler is cut off; otherwise pending; with no deadline it never times out
        let inner_ready: bool = kani::any();
        let tag: u8 = kani::any();
        let sleep = any_sleep();
        let fired = sleep.as_ref().map(|s| s.fired);
        let mut f = inbound::ResponseFuture { inner: Inner { ready: if inner_ready { Some(Ok::<_, InnerErr>(Response { status: StatusCode::Success, body: Bytes(7), tag })) } else { None } }, sleep };
        let r = poll_once(Pin::new(&mut f));
        match r {
            Poll::Ready(Ok(resp)) => { if inner_ready { assert!(resp.tag == tag && resp.status == StatusCode::Success && resp.body == Bytes(7)); } else { assert!(fired == Some(true) && resp.status == StatusCode::RequestTimeout && resp.body == Bytes::new()); } }
            Poll::Ready(Err(_)) => assert!(false),
            Poll::Pending => assert!(!inner_ready && fired != Some(true)),
        }
    }
    #[kani::proof]
    fn outbound_poll() { // @KOBL [C11] one poll of the calling side's timeout future, every state: a finished call returns its own result; otherwise, once the deadline has passed the caller gets a timeout error; otherwise pending; with no deadline it never times out
        let inner_state: u8 = kani::any(); kani::assume(inner_state < 3);   // 0 pending, 1 ok, 2 err
        let tag: u8 = kani::any();
        let sleep = any_sleep();
        let fired = sleep.as_ref().map(|s| s.fired);
        let ready = match inner_state { 1 => Some(Ok::<u8, InnerErr>(tag)), 2 => Some(Err(InnerErr)), _ => None };
        let mut f = outbound::ResponseFuture { inner: Inner { ready }, sleep };
        let r = poll_once(Pin::new(&mut f));
        match r {
            Poll::Ready(Ok(v)) => assert!(inner_state == 1 && v == tag),
            Poll::Ready(Err(e)) => { if inner_state == 2 { assert!(!e.timeout); } else { assert!(inner_state == 0 && fired == Some(true) && e.timeout); } }
            Poll::Pending => assert!(inner_state == 0 && fired != Some(true)),
        }
    }
    #[kani::proof]
    fn auth_poll() { // @KOBL [C20] one poll of the authorization future: the refused case yields exactly the stored (authorizer's) response; the accepted case yields whatever the wrapped service's future yields
        let tag: u8 = kani::any();
        if kani::any() {
            let mut f = auth::ResponseFuture::<Inner<Result<Response<Bytes>, InnerErr>>>::invalid_auth(Response { status: StatusCode::NotFound, body: Bytes(3), tag });
            match poll_once(Pin::new(&mut f)) { Poll::Ready(Ok(r)) => assert!(r.tag == tag && r.status == StatusCode::NotFound && r.body == Bytes(3)), _ => assert!(false) }
        } else {
            let ready: bool = kani::any();
            let mut f = auth::ResponseFuture::future(Inner { ready: if ready { Some(Ok::<_, InnerErr>(Response { status: StatusCode::Success, body: Bytes(1), tag })) } else { None } });
            match poll_once(Pin::new(&mut f)) { Poll::Ready(Ok(r)) => assert!(ready && r.tag == tag), Poll::Ready(Err(_)) => assert!(false), Poll::Pending => assert!(!ready) }
        }
    }
}
'''


def build(ctx):
    C = ctx
    t = PRELUDE
    t += '#[repr(u16)]\n' + C.item(RESP, 'enum StatusCode', extra_derive=['Debug'])
    t += C.item(MOD, 'struct TimeoutExpired', extra_derive=['Debug'])
    for (rel, k) in ((INB, 'inbound'), (OUTB, 'outbound')):
        t += 'pub mod %s {\nuse super::*;\n' % k
        t += C.item(rel, 'pin_project!', rewrites=[dict(rule='X3', pattern='pub(crate) struct ResponseFuture', repl='pub struct ResponseFuture'),
                                                   dict(rule='X3', pattern=r'(\n\s*)(inner|sleep):', repl=r'\1pub \2:', regex=True)], derives=False, keep_attrs=True).replace('pub pin_project!', 'pin_project!')
        hdr = r'<F, (Res, )?E> Future for ResponseFuture<F> .*'
        t += '%s\n{\n' % _impl_header(C, rel, hdr)
        t += '    type Output = %s;\n' % ('Result<Response<Bytes>, E>' if k == 'inbound' else 'Result<Res, Error>')
        t += C.fn(rel, 'impl ' + hdr + ' :: fn poll', k + '::ResponseFuture::poll', ['C11'], probe=False, pub=False,
                  rewrites=[dict(rule='X5', pattern='crate::Error', repl='Error', optional=True)])
        t += '}\n} // mod %s\n' % k
    t += 'pub mod auth {\nuse super::*;\n'
    t += _two_macros(C, AUTHF)
    t += 'impl<F> ResponseFuture<F> {\n'
    t += C.fn(AUTHF, 'impl <F> ResponseFuture<F> :: fn future', 'auth::ResponseFuture::future', ['C20'], probe=False, rewrites=[dict(rule='X3', pattern='pub(super)', repl='pub')])
    t += C.fn(AUTHF, 'impl <F> ResponseFuture<F> :: fn invalid_auth', 'auth::ResponseFuture::invalid_auth', ['C20'], probe=False, rewrites=[dict(rule='X3', pattern='pub(super)', repl='pub')])
    t += '}\n'
    hdr = r'<F, E> Future for ResponseFuture<F> .*'
    t += '%s\n{\n    type Output = F::Output;\n' % _impl_header(C, AUTHF, hdr)
    t += C.fn(AUTHF, 'impl ' + hdr + ' :: fn poll', 'auth::ResponseFuture::poll', ['C20'], probe=False, pub=False)
    t += '}\n} // mod auth\n'
    t += C.helpers_here()
    t += HARNESS
    return t


def _impl_header(C, rel, hdr):
    """the real impl header (generics + where clause), verbatim"""
    from unitlib import extract
    e = extract(C.repo, rel, 'impl ' + hdr)
    head = e.text[:e.text.index('{')]
    return head.replace('crate::Error', 'Error').strip()


def _two_macros(C, rel):
    """both pin_project! invocations of auth/future.rs, verbatim"""
    from extract import SourceFile
    import os
    sf = SourceFile(os.path.join(C.repo, rel))
    out = ''
    for it in sf.items:
        if it.kw == 'pin_project!':
            txt = it.text
            import re
            txt = re.sub(r'///[^\n]*\n', '', txt)
            out += txt + '\n'
    return out
