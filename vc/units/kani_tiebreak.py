"""Unit kani_tiebreak (Kani, complete: loop-free except the derived 32-byte array comparison, closed by unwind(34) with
unwinding assertions on): the real tie-break function and the real derived order of PeerId over the full 2x256-bit domain.
Also validates the order axiom the Verus units assume, and yields concrete counterexamples for C05."""
import prelude as P

NAME = 'kani_tiebreak'
BACKEND = 'kani'


def build(ctx):
    C = ctx
    t = '// GENERATED on every run by /verif/vc from /repo\'s working tree -- do not edit\n#![allow(dead_code, unused, non_upper_case_globals)]\n'
    t += P.peer_types(C)
    t += 'pub struct ActivePeersInner;\nimpl ActivePeersInner {\n'
    t += C.fn(P.CM, 'impl ActivePeersInner :: fn simultaneous_dial_tie_breaking', 'ActivePeersInner::simultaneous_dial_tie_breaking', ['C05'], probe=False)
    t += '}\n'
    t += C.helpers_here()
    t += r'''
#[cfg(kani)]
mod harness {
    use super::*;
    // executable lexicographic order on the raw bytes (the spec the Verus axiom states)
    fn lex_lt(a: &[u8; 32], b: &[u8; 32]) -> bool {
        let mut i = 0;
        while i < 32 {
            if a[i] != b[i] { return a[i] < b[i]; }
            i += 1;
        }
        false
    }
    // c1 is dialed by a, c2 by b.  Returns true iff the survivor at node `me` is c1.
    fn survivor_is_c1(me_is_a: bool, a: &PeerId, b: &PeerId, first_is_c1: bool) -> bool {
        let (own, remote) = if me_is_a { (a, b) } else { (b, a) };
        let o1 = if me_is_a { ConnectionOrigin::Outbound } else { ConnectionOrigin::Inbound };
        let o2 = if me_is_a { ConnectionOrigin::Inbound } else { ConnectionOrigin::Outbound };
        let (existing, new, existing_is_c1) = if first_is_c1 { (o1, o2, true) } else { (o2, o1, false) };
        let replace = ActivePeersInner::simultaneous_dial_tie_breaking(own, remote, existing, new);
        if replace { !existing_is_c1 } else { existing_is_c1 }
    }
    #[kani::proof]
    #[kani::unwind(34)]
    fn converge() { // @KOBL [C05] for every pair of distinct ids, at both nodes and for both arrival orders the survivor is the connection dialed by the greater id
        let a = PeerId(kani::any());
        let b = PeerId(kani::any());
        kani::assume(a.0 != b.0);
        let s_a_12 = survivor_is_c1(true, &a, &b, true);
        let s_a_21 = survivor_is_c1(true, &a, &b, false);
        let s_b_12 = survivor_is_c1(false, &a, &b, true);
        let s_b_21 = survivor_is_c1(false, &a, &b, false);
        assert!(s_a_12 == s_a_21 && s_a_21 == s_b_12 && s_b_12 == s_b_21);
        assert!(s_a_12 == lex_lt(&b.0, &a.0));
    }
    #[kani::proof]
    #[kani::unwind(34)]
    fn mixed_origin_matches_spec() { // @KOBL [C05] tie-break(own, remote, existing, new) with different origins == (dialer of new > dialer of existing), all ids
        let own = PeerId(kani::any());
        let remote = PeerId(kani::any());
        let new_out: bool = kani::any();
        let (existing, new) = if new_out { (ConnectionOrigin::Inbound, ConnectionOrigin::Outbound) } else { (ConnectionOrigin::Outbound, ConnectionOrigin::Inbound) };
        let r = ActivePeersInner::simultaneous_dial_tie_breaking(&own, &remote, existing, new);
        let expect = if new_out { lex_lt(&remote.0, &own.0) } else { lex_lt(&own.0, &remote.0) };
        assert!(r == expect);
    }
    #[kani::proof]
    #[kani::unwind(34)]
    fn derived_order_is_lexicographic() { // @KOBL [C05] (validates the Verus axiom) the derived PartialOrd/Eq of PeerId is the lexicographic order / equality of its 32 bytes
        let a = PeerId(kani::any());
        let b = PeerId(kani::any());
        assert!((a < b) == lex_lt(&a.0, &b.0));
        assert!((a == b) == (a.0 == b.0));
        assert!((a <= b) == (lex_lt(&a.0, &b.0) || a.0 == b.0));
        assert!((a > b) == lex_lt(&b.0, &a.0));
    }
}
'''
    return t
