"""Unit routing (Verus): the dispatch step of anemo's Router (C16).

Functions under contract: routing/mod.rs `impl Service for Router`::call, RouteMatcher::at, Router::new; routing/route.rs Route::{new, oneshot_inner},
`impl Service for Route`::call; routing/not_found.rs NotFound::call.
NOT under contract here (iterator pipelines, dyn Any downcasts, format!, &str inspection; exercised by the bounded unit enum_router and the
execution check routing_table): Router::{route, add_rpc_service, merge, route_layer}, RouteMatcher::insert, RouteId::next, try_downcast.  The
representation invariant they have to establish -- every id the matcher holds has an entry in the route table -- is therefore a PRECONDITION of
`call` here, not a proved invariant.
Assumed: matchit's trie as a ghost map pattern -> value with an uninterpreted selection function (which registered pattern, if any, a path
selects); BTreeMap as a ghost map; tower's BoxCloneService / Oneshot as "which service, which request"."""
import re
import prelude as P

NAME = 'routing'
BACKEND = 'verus'
RT = 'crates/anemo/src/routing/mod.rs'
ROUTE = 'crates/anemo/src/routing/route.rs'
NF = 'crates/anemo/src/routing/not_found.rs'
RESP = 'crates/anemo/src/types/response.rs'

STANDINS = r'''
// ---------- trusted stand-ins ----------
pub struct Bytes { pub v: Vec<u8> }
pub struct Infallible;
pub struct Request<T> { pub route: String, pub body: T }
impl<T> Request<T> { #[verifier::external_body] pub fn route(&self) -> (r: &str) ensures r@ == self.route@ { unimplemented!() } }
pub struct Response<T> { pub status: StatusCode, pub body: T }
pub uninterp spec fn into_response_spec(s: StatusCode) -> Response<Bytes>;
pub trait IntoResponse { fn into_response(self) -> Response<Bytes>; }
impl IntoResponse for StatusCode {
    #[verifier::external_body] fn into_response(self) -> (r: Response<Bytes>) ensures r == into_response_spec(self) { unimplemented!() }
}
// tower: a boxed clonable service is "which service"; a one-shot call is "that service, that request"; a ready future is its value
pub trait SvcId { spec fn svc_id(&self) -> int; }
pub struct BoxCloneService<Req, Resp, Err> { pub id: Ghost<int>, pub p: Ghost<Option<(Req, Resp, Err)>> }
pub struct Oneshot<S, Req> { pub svc: S, pub req: Req }
impl<Req, Resp, Err> BoxCloneService<Req, Resp, Err> {
    #[verifier::external_body] pub fn new<T: SvcId>(svc: T) -> (r: Self) ensures r.id@ == svc.svc_id() { unimplemented!() }
    #[verifier::external_body] pub fn clone(&self) -> (r: Self) ensures r.id@ == self.id@ { unimplemented!() }
    #[verifier::external_body] pub fn oneshot(self, req: Req) -> (r: Oneshot<Self, Req>) ensures r.svc.id@ == self.id@, r.req == req { unimplemented!() }
}
pub struct Ready<T> { pub v: T }
pub mod future_standin { use super::*; #[verifier::external_body] pub fn ready<T>(v: T) -> (r: Ready<T>) ensures r.v == v { unimplemented!() } }
// BTreeMap<RouteId, Route> as a ghost map
pub struct RouteTable { pub m: Ghost<Map<RouteId, Route>> }
impl RouteTable {
    #[verifier::external_body]
    pub fn get(&self, k: &RouteId) -> (r: Option<&Route>) ensures r is Some <==> self.m@.contains_key(*k), r is Some ==> *r->Some_0 == self.m@[*k] { unimplemented!() }
    #[verifier::external_body]
    pub fn insert(&mut self, k: RouteId, v: Route) -> (r: Option<Route>) ensures final(self).m@ == old(self).m@.insert(k, v) { unimplemented!() }
}
impl Default for RouteTable { #[verifier::external_body] fn default() -> (r: RouteTable) ensures r.m@ == Map::<RouteId, Route>::empty() { unimplemented!() } }
// the two path <-> id indexes of RouteMatcher (HashMaps keyed by Arc<str>): opaque here
pub struct PathIndex { pub n: Ghost<nat> }
// matchit 0.5: the trie is a ghost map pattern -> value; WHICH registered pattern a path selects is the trie's business (uninterpreted);
// assumed: a selected pattern is a registered one
pub mod matchit {
    use super::*;
    pub enum MatchError { MissingTrailingSlash, ExtraTrailingSlash, NotFound }
    pub struct InsertError;
    pub struct Match<'k, 'v, V> { pub value: V, pub k: Ghost<Option<&'k ()>>, pub v: Ghost<Option<&'v ()>> }
    pub struct Router<T> { pub pats: Ghost<Map<Seq<char>, T>> }
    pub uninterp spec fn select<T>(pats: Map<Seq<char>, T>, path: Seq<char>) -> Option<Seq<char>>;
    #[verifier::external_body]
    pub broadcast proof fn axiom_select_registered<T>(pats: Map<Seq<char>, T>, path: Seq<char>)
        ensures (#[trigger] select(pats, path)) is Some ==> pats.contains_key(select(pats, path)->Some_0) {}
    impl<T> Router<T> {
        #[verifier::external_body]
        pub fn at<'m, 'p>(&'m self, path: &'p str) -> (r: Result<Match<'m, 'p, &'m T>, MatchError>)
            ensures select(self.pats@, path@) is Some ==> r is Ok && *r->Ok_0.value == self.pats@[select(self.pats@, path@)->Some_0],
                    select(self.pats@, path@) is None ==> r is Err { unimplemented!() }
    }
}
impl Default for RouteMatcher {
    #[verifier::external_body] fn default() -> (r: RouteMatcher) ensures r.inner.pats@ == Map::<Seq<char>, RouteId>::empty() { unimplemented!() }
}
impl SvcId for not_found::NotFound { open spec fn svc_id(&self) -> int { -1 } }
// every id the matcher can answer with has an entry in the route table
pub open spec fn router_wf(r: Router) -> bool { forall|p: Seq<char>| #[trigger] r.matcher.inner.pats@.contains_key(p) ==> r.routes.m@.contains_key(r.matcher.inner.pats@[p]) }
'''


def drop_use(e):
    t2, k = re.subn(r'(?m)^\s*use\s+[^;]*;\s*$', '', e.text)
    if k:
        e.text = t2
        e.log('X2', 'dropped %d `use` statement(s) inside the body' % k)


def build(ctx):
    C = ctx
    t = P.HEADER + P.STD_SPECS
    t += C.item(RESP, 'enum StatusCode', rewrites=[('X5', r'\s*=\s*\d+,', ',', None, True)])
    t += C.item(RT, 'struct RouteId', extra_derive=['Structural'])
    t += C.item(ROUTE, 'struct Route', derives=False)
    t += C.item(RT, 'struct RouteMatcher', derives=False, rewrites=[('X5', 'HashMap<RouteId, Arc<str>>', 'PathIndex', 1), ('X5', 'HashMap<Arc<str>, RouteId>', 'PathIndex', 1)])
    t += C.item(RT, 'struct Router', derives=False, rewrites=[('X5', 'BTreeMap<RouteId, Route>', 'RouteTable', 1)])
    t += 'pub mod not_found {\n    use super::*;\n' + C.item(NF, 'struct NotFound', derives=False) + '}\n'
    t += STANDINS
    t += 'impl Route {\n'
    t += C.fn(ROUTE, 'impl Route :: fn new', 'Route::new', ['C16'], ret='r', sig_rewrites=[(re.compile(r'where\b.*$', re.S), 'where T: SvcId\n')], spec='''
    ensures
        r.0.id@ == $1.svc_id(), // @OBL Route::new::wraps_the_service [C16] a route is exactly the service it was made from
''')
    t += C.fn(ROUTE, 'impl Route :: fn oneshot_inner', 'Route::oneshot_inner', ['C16'], ret='r', spec='''
    ensures
        r.svc.id@ == self.0.id@ && r.req == $1, // @OBL Route::oneshot_inner::calls_its_own_service_once [C16] a route hands the request, unchanged, to (a clone of) its own service, once
''')
    t += C.fn(ROUTE, 'impl Service<Request<Bytes>> for Route :: fn call', 'Route::call', ['C16'], ret='r', sig_rewrites=[('Self::Future', 'Oneshot<BoxCloneService<Request<Bytes>, Response<Bytes>, Infallible>, Request<Bytes>>')], spec='''
    ensures
        r.svc.id@ == old(self).0.id@ && r.req == $1, // @OBL Route::call::calls_its_own_service_once [C16] calling a route is calling its service with that request
''')
    t += '}\nimpl not_found::NotFound {\n'
    t += C.fn(NF, 'impl <B> Service<Request<B>> for NotFound .* :: fn call', 'NotFound::call', ['C16'], ret='r',
              sig_rewrites=[('Self::Future', 'Ready<core::result::Result<Response<Bytes>, Infallible>>'), ('fn call(', 'fn call<B>(')],
              rewrites=[dict(rule='X5', pattern='std::future::ready', repl='future_standin::ready')], spec='''
    ensures
        r.v is Ok && r.v->Ok_0 == into_response_spec(StatusCode::NotFound), // @OBL NotFound::call::answers_not_found [C16] the fallback answers NotFound, whatever the request
''')
    t += '}\nimpl RouteMatcher {\n'
    t += C.fn(RT, 'impl RouteMatcher :: fn at', 'RouteMatcher::at', ['C16'], ret='r', spec='''
    ensures
        matchit::select(self.inner.pats@, $1@) is Some ==> r is Ok && *r->Ok_0.value == self.inner.pats@[matchit::select(self.inner.pats@, $1@)->Some_0], // @OBL RouteMatcher::at::is_the_tries_answer [C16] the matcher answers with the id registered for the pattern the trie selects for this path
        matchit::select(self.inner.pats@, $1@) is None ==> r is Err, // @OBL RouteMatcher::at::no_pattern_no_id [C16] and with an error when the trie selects none
''')
    t += '}\nimpl Router {\n'
    t += C.fn(RT, 'impl Router :: fn new', 'Router::new', ['C16'], ret='r', spec='''
    ensures
        r.routes.m@ == Map::<RouteId, Route>::empty() && r.matcher.inner.pats@ == Map::<Seq<char>, RouteId>::empty() && r.fallback.0.id@ == -1 && router_wf(r), // @OBL Router::new::empty_with_not_found_fallback [C16] a new router has no route and falls back to NotFound
''')
    t += C.fn(RT, 'impl Service<Request<Bytes>> for Router :: fn call', 'Router::call', ['C16'], ret='r', transforms=[drop_use],
              sig_rewrites=[('Self::Future', 'Oneshot<BoxCloneService<Request<Bytes>, Response<Bytes>, Infallible>, Request<Bytes>>')],
              rewrites=[dict(rule='X5', pattern='MatchError::', repl='matchit::MatchError::', optional=True)],
              body_prefix='\n        broadcast use matchit::axiom_select_registered;\n', spec='''
    requires
        router_wf(*old(self)),
    ensures
        matchit::select(old(self).matcher.inner.pats@, $1.route@) is Some ==>
            r.svc.id@ == old(self).routes.m@[old(self).matcher.inner.pats@[matchit::select(old(self).matcher.inner.pats@, $1.route@)->Some_0]].0.id@, // @OBL Router::call::dispatches_to_the_matched_routes_service [C16] a request whose route the trie matches to a registered pattern goes to exactly the service stored for that pattern's id
        matchit::select(old(self).matcher.inner.pats@, $1.route@) is None ==> r.svc.id@ == old(self).fallback.0.id@, // @OBL Router::call::unmatched_goes_to_the_fallback [C16] any route the trie matches to nothing (including empty or odd strings) goes to the fallback (NotFound), never to a registered service
        r.req == $1, // @OBL Router::call::request_unchanged_once [C16] the request is handed over unchanged, to exactly one service
        *final(self) == *old(self), // @OBL Router::call::router_unchanged [C16] routing a request never changes the router
''', prose='Router::call never panics for any route string as long as every id the matcher holds has a route (the `expect` is unreachable)')
    t += '}\n'
    t += C.helpers_here()
    t += P.FOOTER
    return t
