"""Unit kani_timeout (Kani): the real Timeout::call of both directions and try_parse_timeout executed on the real
std::time::Duration and str::parse, against executable stand-ins (one-slot header map, counting service, recording sleep).
Full domain over the configured default (every Option<Duration>); the header TEXT ranges over a fixed table of
representative strings (absent, 0, small, u64::MAX, overflowing, negative, padded, non-numeric, empty) -- that part is a
BOUNDED stand-in (str::parse on arbitrary text is outside CBMC's reach) and is labelled so."""
NAME = 'kani_timeout'
BACKEND = 'kani'
MOD = 'crates/anemo/src/middleware/timeout/mod.rs'
INB = 'crates/anemo/src/middleware/timeout/inbound.rs'
OUTB = 'crates/anemo/src/middleware/timeout/outbound.rs'
REQ = 'crates/anemo/src/types/request.rs'
TYPES = 'crates/anemo/src/types/mod.rs'

PRELUDE = r'''// GENERATED on every run by /verif/vc from /repo's working tree -- do not edit
#![allow(dead_code, unused, non_upper_case_globals)]
use std::time::Duration;
// ---------- stand-ins (executable) ----------
#[derive(Debug)]
pub struct Error;
impl Error { pub fn msg() -> Self { Error } }
// one-slot header map: only the `timeout` key matters to the code under test
#[derive(Default)]
pub struct HeaderMap { pub timeout: Option<String> }
impl HeaderMap { pub fn get(&self, k: &str) -> Option<&String> { if k == "timeout" { self.timeout.as_ref() } else { None } } }
#[derive(Default)]
pub struct Extensions;
pub struct Bytes;
pub struct Response<T> { pub body: T }
pub struct Sleep { pub duration: Duration }
pub mod tokio { pub mod time { pub fn sleep(duration: std::time::Duration) -> super::super::Sleep { super::super::Sleep { duration } } } }
pub trait Service<Req> { type Future; fn call(&mut self, req: Req) -> Self::Future; }
pub struct Counting { pub calls: u32 }
impl<Req> Service<Req> for Counting { type Future = u32; fn call(&mut self, _req: Req) -> u32 { self.calls += 1; self.calls } }
pub mod cmp { pub use std::cmp::{min, max}; }
'''

HARNESS = r'''
#[cfg(kani)]
mod harness {
    use super::*;
    // header texts and what the statement of C11 says they mean (None = absent or unparsable)
    const TABLE: [(Option<&str>, Option<u64>); 12] = [
        (None, None), (Some("0"), Some(0)), (Some("1"), Some(1)), (Some("1500"), Some(1500)), (Some("1000000000"), Some(1_000_000_000)),
        (Some("18446744073709551615"), Some(u64::MAX)), (Some("18446744073709551616"), None), (Some("-1"), None), (Some(" 5"), None),
        (Some("1.5"), None), (Some("abc"), None), (Some(""), None),
    ];
    fn any_default() -> Option<Duration> {
        if kani::any() { let s: u64 = kani::any(); let n: u32 = kani::any(); kani::assume(n < 1_000_000_000); Some(Duration::new(s, n)) } else { None }
    }
    fn expected(header: Option<u64>, default: Option<Duration>) -> Option<Duration> {
        match (header.map(Duration::from_nanos), default) {
            (None, None) => None, (Some(a), None) => Some(a), (None, Some(b)) => Some(b),
            (Some(a), Some(b)) => Some(if a <= b { a } else { b }),
        }
    }
    fn request(i: usize) -> Request<()> {
        Request { head: RequestHeader { route: String::new(), version: Version::V1, headers: HeaderMap { timeout: TABLE[i].0.map(|s| s.to_owned()) }, extensions: Extensions }, body: () }
    }
    #[kani::proof]
    #[kani::unwind(24)]
    fn inbound_deadline_is_min() { // @KOBL [C11,C06] @BOUNDED inbound: for every configured default (any Option<Duration>) and each header text of the table, the armed timer is min(default, header) with unparsable == absent, and the service is called exactly once (header texts: 12 representatives)
        let i: usize = kani::any(); kani::assume(i < 12);
        let default = any_default();
        let mut svc = inbound::Timeout::new(Counting { calls: 0 }, default);
        let fut = svc.call(request(i));
        assert!(fut.sleep.map(|s| s.duration) == expected(TABLE[i].1, default));
        assert!(svc.inner.calls == 1 && fut.inner == 1);
    }
    #[kani::proof]
    #[kani::unwind(24)]
    fn outbound_deadline_is_min() { // @KOBL [C11,C06] @BOUNDED outbound: same statement for the calling side (header texts: 12 representatives)
        let i: usize = kani::any(); kani::assume(i < 12);
        let default = any_default();
        let mut svc = outbound::Timeout::new(Counting { calls: 0 }, default);
        let fut = svc.call(request(i));
        assert!(fut.sleep.map(|s| s.duration) == expected(TABLE[i].1, default));
        assert!(svc.inner.calls == 1 && fut.inner == 1);
    }
    #[kani::proof]
    #[kani::unwind(24)]
    fn parse_table() { // @KOBL [C11,C06] @BOUNDED try_parse_timeout on each header text of the table: absent -> Ok(None), u64 text -> that many nanoseconds, anything else -> Err; never panics
        let i: usize = kani::any(); kani::assume(i < 12);
        let h = HeaderMap { timeout: TABLE[i].0.map(|s| s.to_owned()) };
        let r = try_parse_timeout(&h);
        match (TABLE[i].0, TABLE[i].1) {
            (None, _) => assert!(matches!(r, Ok(None))),
            (Some(_), Some(n)) => assert!(matches!(r, Ok(Some(d)) if d == Duration::from_nanos(n))),
            (Some(_), None) => assert!(r.is_err()),
        }
    }
}
'''


def build(ctx):
    C = ctx
    C.helper_rewrites = [dict(rule='X5', pattern='std::time::', repl='std::time::'), dict(rule='X5', pattern='super::', repl='')]
    t = PRELUDE
    t += 'pub mod header {\n' + C.item(TYPES, 'mod header :: const TIMEOUT') + '}\n'
    t += '#[repr(u16)]\n' + C.item(TYPES, 'enum Version', extra_derive=['Debug'])
    t += C.item(REQ, 'struct RequestHeader')
    t += C.item(REQ, 'struct Request')
    t += 'impl<T> Request<T> {\n'
    t += C.fn(REQ, 'impl <T> Request<T> :: fn headers', 'Request::headers', ['C11'], probe=False)
    t += '}\n'
    t += C.fn(MOD, 'fn try_parse_timeout', 'try_parse_timeout', ['C11', 'C06'], probe=False)
    for (rel, k) in ((INB, 'inbound'), (OUTB, 'outbound')):
        t += 'pub mod %s {\nuse super::*;\n' % k
        t += C.item(rel, 'struct Timeout')
        t += C.item(rel, 'pin_project! :: struct ResponseFuture')
        t += 'impl<S> Timeout<S> {\n'
        t += C.fn(rel, 'impl <S> Timeout<S> :: fn new', k + '::Timeout::new', ['C11'], probe=False)
        hdr = 'impl <S, ReqBody> Service<Request<ReqBody>> for Timeout<S> .*'
        t += C.fn(rel, hdr + ' :: fn call', k + '::Timeout::call', ['C11', 'C06'], probe=False,
                  sig_rewrites=[('Self::Future', 'ResponseFuture<S::Future> where S: Service<Request<ReqBody>>'), ('fn call(', 'fn call<ReqBody>(')],
                  rewrites=[dict(rule='X5', pattern='super::try_parse_timeout', repl='try_parse_timeout', optional=True)])
        t += '}\n} // mod %s\n' % k
    t += C.helpers_here()
    t += HARNESS
    return t
