"""Unit active_peers (Verus): the active-peer set of network/connection_manager.rs.

Functions under contract: ActivePeersInner::{new, subscribe, len, get, contains, remove, remove_with_stable_id,
send_event, add, simultaneous_dial_tie_breaking, peers}; the iterator pipeline of `peers` (`keys().copied().collect()`) is rendered by the trusted
shape rule X13 as an assumed generic std function (every key of the map exactly once); `enum_cm` executes the real pipeline.
Properties: C04 (all clauses, sequential histories), C05 (tie-break + convergence lemmas), C09 (explicit disconnect),
C03 (add => contains), C10 (len == |dom|).
"""
import re
from unitlib import AnchorLost, code_mask, match_delim
import prelude as P
import re
from unitlib import extract as unitlib_extract
import dialing_parts
import network_api_parts

NAME = 'active_peers'
BACKEND = 'verus'
CM = P.CM


def normalise_entry_moves(e):
    """X9(a): a one-armed `if` whose block consumes an `Entry` by value gets `else { let _unused = <entry>; }`.
    Works on any such `if` (no anchor): needed because this Verus build derives `false` after the join otherwise."""
    t = e.text
    mask = code_mask(t)
    out = []
    for m in re.finditer(r'\bif\b', t):
        if not mask[m.start()]:
            continue
        # find the block of this `if`
        i = m.end()
        depth = 0
        while i < len(t):
            if mask[i] and t[i] in '([':
                i = match_delim(t, mask, i) + 1
                continue
            if mask[i] and t[i] == '{':
                break
            i += 1
        if i >= len(t):
            continue
        c = match_delim(t, mask, i)
        blk = t[i:c + 1]
        mv = re.search(r'\b([a-z_][a-z0-9_]*)\.(remove_entry|remove|into_mut|insert_entry)\s*\(\s*\)', blk)
        rest = t[c + 1:].lstrip()
        if mv and not rest.startswith('else'):
            out.append((c + 1, ' else { let _unused = %s; }' % mv.group(1)))
    for pos, ins in sorted(out, reverse=True):
        t = t[:pos] + ins + t[pos:]
        e.log('X9a', 'added %r after one-armed if that consumes an Entry' % ins.strip())
    e.text = t


def ghost_close_log(e):
    """X7: after every `<expr>.close();` append the closed connection's stable id to the ghost close log"""
    t = e.text
    n = 0

    def rep(m):
        nonlocal n
        n += 1
        return '%s.close(); proof { self.closed@ = self.closed@.push(%s.sid); }' % (m.group(1), m.group(1))
    t2 = re.sub(r'\b([a-z_][a-z0-9_]*)\.close\(\);', rep, t)
    if n:
        e.text = t2
        e.log('X7', 'ghost close-log update appended after %d close() call(s)' % n)


SPEC = r'''
// =====================================================================================================
// Oracle written from the statement of C04 / C05 (not from the code)
// =====================================================================================================

// strict replay of an event log over a set of peers: defined only if every NewPeer finds the peer absent and
// every LostPeer finds it present -- this IS "per peer, events strictly alternate NewPeer, LostPeer, NewPeer, ..."
pub open spec fn step(s: Option<Set<PeerId>>, e: PeerEvent) -> Option<Set<PeerId>> {
    match s {
        None => None,
        Some(set) => match e {
            PeerEvent::NewPeer(p) => if set.contains(p) { None } else { Some(set.insert(p)) },
            PeerEvent::LostPeer(p, _) => if set.contains(p) { Some(set.remove(p)) } else { None },
        }
    }
}
pub open spec fn replay_from(start: Option<Set<PeerId>>, log: Seq<PeerEvent>) -> Option<Set<PeerId>>
    decreases log.len()
{
    if log.len() == 0 { start } else { step(replay_from(start, log.drop_last()), log.last()) }
}
pub broadcast proof fn lemma_replay_push(start: Option<Set<PeerId>>, log: Seq<PeerEvent>, e: PeerEvent) // @FNOBL spec::replay_push [C04] replay(log ++ [e]) == step(replay(log), e)
    ensures #[trigger] replay_from(start, log.push(e)) == step(replay_from(start, log), e)
{
    assert(log.push(e).drop_last() =~= log);
}

// who dialed a connection, seen from the node `own` whose peer is `remote`
pub open spec fn dialer(own: PeerId, remote: PeerId, origin: ConnectionOrigin) -> PeerId {
    if origin == ConnectionOrigin::Outbound { own } else { remote }
}
// C05: "keep the connection dialed by the greater PeerId".  Decision for two connections of DIFFERENT origin.
pub open spec fn keep_new_mixed(own: PeerId, remote: PeerId, new: ConnectionOrigin) -> bool {
    // the existing connection has the other origin, hence the other dialer
    let new_dialer = dialer(own, remote, new);
    let old_dialer = if new_dialer == own { remote } else { own };
    lex_lt(old_dialer.0@, new_dialer.0@)
}

#[verifier::ext_equal]
pub struct AState { pub conns: Map<PeerId, Connection>, pub log: Seq<PeerEvent>, pub closed: Seq<usize> }

impl AState {
    // representation invariant (I1..I4 of DESIGN section 5 / C04)
    pub open spec fn inv(self) -> bool {
        &&& replay_from(Some(Set::empty()), self.log) == Some(self.conns.dom())
        &&& forall|p: PeerId| self.conns.contains_key(p) ==> (#[trigger] self.conns[p]).peer == p
        &&& forall|p: PeerId, i: int| self.conns.contains_key(p) && 0 <= i < self.closed.len() ==> (#[trigger] self.conns[p]).sid != #[trigger] self.closed[i]
        &&& forall|p: PeerId, q: PeerId| self.conns.contains_key(p) && self.conns.contains_key(q) && p != q ==> (#[trigger] self.conns[p]).sid != (#[trigger] self.conns[q]).sid
    }
    // a newly established connection: its stable id was never closed and is not stored (quinn stable ids are unique)
    pub open spec fn fresh(self, c: Connection) -> bool {
        &&& forall|i: int| 0 <= i < self.closed.len() ==> self.closed[i] != c.sid
        &&& forall|p: PeerId| self.conns.contains_key(p) ==> (#[trigger] self.conns[p]).sid != c.sid
    }
    pub open spec fn init() -> AState { AState { conns: Map::empty(), log: Seq::empty(), closed: Seq::empty() } }
}

// spec transition of `add`; `replace` is the tie-break decision used when the peer is already present
pub open spec fn add_spec(pre: AState, c: Connection, replace: bool) -> (AState, Option<Connection>) {
    let p = c.peer;
    if !pre.conns.contains_key(p) {
        (AState { conns: pre.conns.insert(p, c), log: pre.log.push(PeerEvent::NewPeer(p)), closed: pre.closed }, Some(c))
    } else if replace {
        (AState { conns: pre.conns.insert(p, c),
                  log: pre.log.push(PeerEvent::LostPeer(p, DisconnectReason::Requested)).push(PeerEvent::NewPeer(p)),
                  closed: pre.closed.push(pre.conns[p].sid) }, Some(c))
    } else {
        (AState { conns: pre.conns, log: pre.log, closed: pre.closed.push(c.sid) }, None)
    }
}
pub open spec fn rm_spec(pre: AState, p: PeerId, reason: DisconnectReason) -> AState {
    if pre.conns.contains_key(p) {
        AState { conns: pre.conns.remove(p), log: pre.log.push(PeerEvent::LostPeer(p, reason)), closed: pre.closed.push(pre.conns[p].sid) }
    } else { pre }
}
pub open spec fn rm_sid_spec(pre: AState, p: PeerId, sid: usize, reason: DisconnectReason) -> AState {
    if pre.conns.contains_key(p) && pre.conns[p].sid == sid { rm_spec(pre, p, reason) } else { pre }
}

// ---------------- lemmas: every transition preserves the invariant from an ARBITRARY state ----------------
pub proof fn lemma_init_inv() // @FNOBL lemma::init_inv [C04] the empty active-peer set satisfies the invariant
    ensures AState::init().inv()
{
    assert(AState::init().conns.dom() =~= Set::<PeerId>::empty());
}
pub proof fn lemma_add_preserves_inv(pre: AState, c: Connection, replace: bool) // @FNOBL lemma::add_preserves_inv [C04,C05] add keeps: log replays to the listing, one entry per peer keyed by its identity, no stored connection is closed, stable ids distinct
    requires pre.inv(), pre.fresh(c)
    ensures add_spec(pre, c, replace).0.inv(),
            add_spec(pre, c, replace).1 is Some ==> add_spec(pre, c, replace).0.conns.contains_key(c.peer) && add_spec(pre, c, replace).0.conns[c.peer] == c,
{
    broadcast use lemma_replay_push;
    let p = c.peer;
    let post = add_spec(pre, c, replace).0;
    if !pre.conns.contains_key(p) {
        assert(post.conns.dom() =~= pre.conns.dom().insert(p));
    } else if replace {
        assert(pre.conns.dom().remove(p).insert(p) =~= pre.conns.dom());
        assert(post.conns.dom() =~= pre.conns.dom());
    } else {
    }
}
pub proof fn lemma_rm_preserves_inv(pre: AState, p: PeerId, reason: DisconnectReason) // @FNOBL lemma::rm_preserves_inv [C04,C09] remove keeps the invariant; the peer is absent afterwards
    requires pre.inv()
    ensures rm_spec(pre, p, reason).inv(), !rm_spec(pre, p, reason).conns.contains_key(p)
{
    broadcast use lemma_replay_push;
    let post = rm_spec(pre, p, reason);
    if pre.conns.contains_key(p) {
        assert(post.conns.dom() =~= pre.conns.dom().remove(p));
    }
}
pub proof fn lemma_rm_sid_preserves_inv(pre: AState, p: PeerId, sid: usize, reason: DisconnectReason) // @FNOBL lemma::rm_sid_preserves_inv [C04] remove_with_stable_id keeps the invariant
    requires pre.inv()
    ensures rm_sid_spec(pre, p, sid, reason).inv()
{
    lemma_rm_preserves_inv(pre, p, reason);
}
// "the end of an older, replaced connection never removes or disturbs its replacement"
pub proof fn lemma_stale_exit_ignored(pre: AState, c: Connection, reason: DisconnectReason) // @FNOBL lemma::stale_exit_ignored [C04,C05] after a replacement, the late exit of the replaced connection changes nothing
    requires pre.inv(), pre.fresh(c), pre.conns.contains_key(c.peer)
    ensures rm_sid_spec(add_spec(pre, c, true).0, c.peer, pre.conns[c.peer].sid, reason) == add_spec(pre, c, true).0
{
}
// a connection that was closed (rejected, replaced, removed) can never remove anything later
pub proof fn lemma_closed_exit_ignored(s: AState, p: PeerId, sid: usize, reason: DisconnectReason) // @FNOBL lemma::closed_exit_ignored [C04,C05] the handler exit of any connection this code already closed is a no-op
    requires s.inv(), exists|i: int| 0 <= i < s.closed.len() && s.closed[i] == sid
    ensures rm_sid_spec(s, p, sid, reason) == s
{
}
// "the snapshot returned with a subscription plus all later events always reproduces the current listing"
pub proof fn lemma_snapshot(log: Seq<PeerEvent>, i: int) // @FNOBL lemma::snapshot [C04] for every subscription point i: replaying log[i..] from the listing at i gives the current listing
    requires 0 <= i <= log.len()
    ensures replay_from(replay_from(Some(Set::empty()), log.subrange(0, i)), log.subrange(i, log.len() as int))
            == replay_from(Some(Set::empty()), log)
    decreases log.len()
{
    if i == log.len() {
        assert(log.subrange(0, i) =~= log);
        assert(log.subrange(i, log.len() as int).len() == 0);
    } else {
        let l2 = log.drop_last();
        lemma_snapshot(l2, i);
        assert(l2.subrange(0, i) =~= log.subrange(0, i));
        assert(log.subrange(i, log.len() as int).drop_last() =~= l2.subrange(i, l2.len() as int));
        assert(log.subrange(i, log.len() as int).last() == log.last());
    }
}
// a defined strict replay means: whatever prefix you look at, it is itself defined (no duplicate NewPeer, no LostPeer of an absent peer anywhere)
pub proof fn lemma_prefix_defined(log: Seq<PeerEvent>, i: int) // @FNOBL lemma::prefix_defined [C04] if the whole log replays strictly then so does every prefix (events alternate at every point in the past too)
    requires 0 <= i <= log.len(), replay_from(Some(Set::empty()), log) is Some
    ensures replay_from(Some(Set::empty()), log.subrange(0, i)) is Some
    decreases log.len()
{
    if i == log.len() { assert(log.subrange(0, i) =~= log); }
    else {
        let l2 = log.drop_last();
        lemma_prefix_defined(l2, i);
        assert(l2.subrange(0, i) =~= log.subrange(0, i));
    }
}
// "at most one live connection per remote identity": two different connections to one peer cannot both be stored and un-closed
pub proof fn lemma_at_most_one(pre: AState, c: Connection, replace: bool) // @FNOBL lemma::at_most_one [C04,C05] after add, of the old and the new connection to a peer exactly one is stored and the other one has been closed
    requires pre.inv(), pre.fresh(c), pre.conns.contains_key(c.peer)
    ensures ({
        let o = pre.conns[c.peer];
        let post = add_spec(pre, c, replace).0;
        &&& post.conns.contains_key(c.peer)
        &&& replace ==> post.conns[c.peer] == c && post.closed.last() == o.sid
        &&& !replace ==> post.conns[c.peer] == o && post.closed.last() == c.sid
        &&& post.closed.len() == pre.closed.len() + 1
    })
{
}

// ---------------- C05: convergence of simultaneous mutual dials (over the contracts above) ----------------
// node `own` sees two connections to `remote`: `co` which it dialed itself and `ci` which `remote` dialed.
pub open spec fn decide(own: PeerId, remote: PeerId, existing: Connection, new: Connection) -> bool {
    keep_new_mixed(own, remote, new.orig)
}
pub proof fn lemma_converge_one_node(pre: AState, own: PeerId, remote: PeerId, co: Connection, ci: Connection, first_is_out: bool) // @FNOBL lemma::converge_one_node [C05] whichever of the two connections completes first, the node ends up holding the one dialed by the greater id, has closed exactly the other one, and its events are New or New,Lost(Requested),New
    requires pre.inv(), own != remote, !pre.conns.contains_key(remote),
             co.peer == remote, ci.peer == remote, co.orig == ConnectionOrigin::Outbound, ci.orig == ConnectionOrigin::Inbound,
             co.sid != ci.sid, pre.fresh(co), pre.fresh(ci)
    ensures ({
        let first = if first_is_out { co } else { ci };
        let second = if first_is_out { ci } else { co };
        let s1 = add_spec(pre, first, true).0;
        let s2 = add_spec(s1, second, decide(own, remote, first, second)).0;
        let winner = if lex_lt(remote.0@, own.0@) { co } else { ci };   // dialed by the greater id
        let loser = if lex_lt(remote.0@, own.0@) { ci } else { co };
        &&& s2.inv()
        &&& s2.conns.contains_key(remote) && s2.conns[remote] == winner
        &&& s2.conns.dom() =~= pre.conns.dom().insert(remote)
        &&& s2.closed == pre.closed.push(loser.sid)
        &&& (s2.log == pre.log.push(PeerEvent::NewPeer(remote))
             || s2.log == pre.log.push(PeerEvent::NewPeer(remote)).push(PeerEvent::LostPeer(remote, DisconnectReason::Requested)).push(PeerEvent::NewPeer(remote)))
        // the loser's handler exit, whenever it comes afterwards, changes nothing
        &&& forall|r: DisconnectReason| rm_sid_spec(s2, remote, loser.sid, r) == s2
    })
{
    lemma_lex_trichotomy(own.0@, remote.0@);
    assert(own.0@ != remote.0@) by { if own.0@ == remote.0@ { assert(own.0 =~= remote.0); } }
    let first = if first_is_out { co } else { ci };
    let second = if first_is_out { ci } else { co };
    lemma_add_preserves_inv(pre, first, true);
    let s1 = add_spec(pre, first, true).0;
    assert(s1.fresh(second));
    lemma_add_preserves_inv(s1, second, decide(own, remote, first, second));
    let s2 = add_spec(s1, second, decide(own, remote, first, second)).0;
    assert(s1.conns.dom() =~= pre.conns.dom().insert(remote));
    assert(s2.conns.dom() =~= pre.conns.dom().insert(remote));
}
// both sides agree: A keeps the connection dialed by max(a,b) and so does B -> it is the same connection
pub proof fn lemma_converge_both_sides(a: PeerId, b: PeerId) // @FNOBL lemma::converge_both_sides [C05] the surviving dialer is the same at both nodes, depends only on the two ids, and is the greater one
    requires a != b
    ensures ({
        // at A (own = a): keeps its own outbound dial iff b < a ; at B (own = b): keeps A's inbound dial iff b < a
        let a_keeps_a_dial = lex_lt(b.0@, a.0@);
        let b_keeps_a_dial = !lex_lt(a.0@, b.0@);
        a_keeps_a_dial == b_keeps_a_dial
    }),
    // the decision function is symmetric: seen from either end, for either arrival order, the kept dialer is max(a,b)
    keep_new_mixed(a, b, ConnectionOrigin::Outbound) == lex_lt(b.0@, a.0@),
    keep_new_mixed(a, b, ConnectionOrigin::Inbound) == lex_lt(a.0@, b.0@),
    keep_new_mixed(b, a, ConnectionOrigin::Outbound) == lex_lt(a.0@, b.0@),
    keep_new_mixed(b, a, ConnectionOrigin::Inbound) == lex_lt(b.0@, a.0@),
    keep_new_mixed(a, b, ConnectionOrigin::Outbound) != keep_new_mixed(a, b, ConnectionOrigin::Inbound),
{
    lemma_lex_trichotomy(a.0@, b.0@);
    assert(a.0@ != b.0@) by { if a.0@ == b.0@ { assert(a.0 =~= b.0); } }
}

// ---------------- refinement: the exec struct and its abstract view ----------------
impl ActivePeersInner {
    pub open spec fn view(&self) -> AState { AState { conns: self.connections@, log: self.peer_event_sender.log@, closed: self.closed@ } }
}
'''


KEYS_STANDIN = r'''
// X13 (trusted shape rule): `<map>.keys().copied().collect()` is rendered as this assumed generic function -- std's HashMap::keys yields every key of
// the map exactly once, `copied` and `collect` into a Vec keep them all in that order
#[verifier::external_body]
pub fn hashmap_keys_copied_collect<K: Copy, V>(m: &HashMap<K, V>) -> (r: Vec<K>)
    ensures r@.to_set() =~= m@.dom(), r@.no_duplicates(),
{ unimplemented!() }
'''


def keys_pipeline(e):
    """X13: `<recv>.keys().copied().collect()` -> hashmap_keys_copied_collect(&<recv>)"""
    t2, k = re.subn(r'(\bself\s*\.\s*\w+)\s*\.\s*keys\(\)\s*\.\s*copied\(\)\s*\.\s*collect\(\)', lambda m: 'hashmap_keys_copied_collect(&%s)' % re.sub(r'\s+', '', m.group(1)), e.text)
    if k:
        e.text = t2
        e.log('X13', '`.keys().copied().collect()` rendered as the assumed generic function hashmap_keys_copied_collect (x%d)' % k)


def build(ctx):
    C = ctx
    t = P.HEADER
    t += P.peer_types(C) + P.event_types(C)
    t += P.STD_SPECS + P.TIME_STANDIN + P.PEER_ID_AXIOMS + P.CONNECTION_STANDIN + P.BROADCAST_STANDIN
    C.helper_rewrites = [dict(rule='X5', pattern='std::time::', repl=''), dict(rule='X5', pattern='std::cmp::', repl='cmp::')]
    # struct with the ghost close log (X7) and the broadcast stand-in (X5)
    t += C.item(CM, 'struct ActivePeersInner', rewrites=[
        ('X5', 'broadcast::Sender<PeerEvent>', 'Sender', 1),
        ('X7', r'\}\s*$', '    pub closed: Ghost<Seq<usize>>,\n}', 1, True),
    ])
    t += SPEC + KEYS_STANDIN
    t += 'impl ActivePeersInner {\n'

    t += C.fn(CM, 'impl ActivePeersInner :: fn new', 'ActivePeersInner::new', ['C04'], optional=True, ret='r', spec='''
    ensures
        r.view() == AState::init(), // @OBL ActivePeersInner::new::empty [C04] a new active-peer set has no connections, an empty event log and nothing closed
''', rewrites=[('X7', 'peer_event_sender: sender,', 'peer_event_sender: sender, closed: Ghost(Seq::empty()),', 1),
               ('X5', 'Default::default()', 'HashMap::new()', 1)],
        body_prefix='\n        broadcast use axiom_peer_id_key;\n')

    t += C.fn(CM, 'impl ActivePeersInner :: fn peers', 'ActivePeersInner::peers', ['C04', 'C09'], optional=True, ret='r', transforms=[keys_pipeline], spec='''
    ensures
        r@.to_set() =~= self.connections@.dom(), // @OBL ActivePeersInner::peers::listing_is_the_connected_set [C04,C09] the connected-peer listing names exactly the peers that have a live connection: nobody else, nobody missing
        r@.no_duplicates(), // @OBL ActivePeersInner::peers::listing_no_duplicates [C04,C05] and names nobody twice
''')

    t += C.fn(CM, 'impl ActivePeersInner :: fn subscribe', 'ActivePeersInner::subscribe', ['C04'], optional=True, ret='r', spec='''
    ensures
        r.0.start@ == self.peer_event_sender.log@.len(), // @OBL ActivePeersInner::subscribe::receiver_at_log_end [C04] the receiver sees exactly the events sent after the snapshot was taken (same critical section)
        r.1@.to_set() =~= self.connections@.dom(), // @OBL ActivePeersInner::subscribe::snapshot_is_listing [C04] the snapshot is exactly the current listing
        r.1@.no_duplicates(), // @OBL ActivePeersInner::subscribe::snapshot_no_duplicates [C04] the snapshot contains no duplicates
''', rewrites=[('X5', 'broadcast::Receiver<PeerEvent>', 'Receiver', 1)])

    t += C.fn(CM, 'impl ActivePeersInner :: fn len', 'ActivePeersInner::len', ['C04', 'C10'], optional=True, ret='r', spec='''
    ensures
        r == self.connections@.dom().len(), // @OBL ActivePeersInner::len::is_listing_size [C04,C10] len() is the number of established connections, inbound and outbound alike
''', body_prefix='\n        broadcast use axiom_peer_id_key;\n')

    t += C.fn(CM, 'impl ActivePeersInner :: fn get', 'ActivePeersInner::get', ['C04', 'C09'], optional=True, ret='r', spec='''
    ensures
        r == (if self.connections@.contains_key(*peer_id) { Some(self.connections@[*peer_id]) } else { None::<Connection> }), // @OBL ActivePeersInner::get::is_view_lookup [C04,C09] get() returns the stored connection of that peer or None
''', body_prefix='\n        broadcast use axiom_peer_id_key;\n')

    t += C.fn(CM, 'impl ActivePeersInner :: fn contains', 'ActivePeersInner::contains', ['C04', 'C13'], optional=True, ret='r', spec='''
    ensures
        r == self.connections@.contains_key(*peer_id), // @OBL ActivePeersInner::contains::is_view_membership [C04,C13] contains() is membership in the listing
''', body_prefix='\n        broadcast use axiom_peer_id_key;\n')

    t += _fn_with(C, CM, 'impl ActivePeersInner :: fn remove', 'ActivePeersInner::remove', ['C04', 'C09'], None, '''
    ensures
        final(self).view() =~~= rm_spec(old(self).view(), *peer_id, reason), // @OBL ActivePeersInner::remove::transition [C04,C09] remove(p, reason): if present -> entry removed, that connection closed, exactly one LostPeer(p, reason) appended; if absent -> nothing changes
''', '\n        broadcast use axiom_peer_id_key;\n', [ghost_close_log])

    t += _fn_with(C, CM, 'impl ActivePeersInner :: fn remove_with_stable_id', 'ActivePeersInner::remove_with_stable_id', ['C04', 'C05', 'C09'], None, '''
    ensures
        final(self).view() =~~= rm_sid_spec(old(self).view(), peer_id, stable_id, reason), // @OBL ActivePeersInner::remove_with_stable_id::transition [C04,C05,C09] removal only if the stored connection is the one that ended (same stable id); otherwise nothing at all changes
''', '\n        broadcast use axiom_peer_id_key;\n', [normalise_entry_moves, ghost_close_log])

    t += C.fn(CM, 'impl ActivePeersInner :: fn send_event', 'ActivePeersInner::send_event', ['C04'], optional=True, spec='''
    ensures
        final(self).peer_event_sender.log@ == old(self).peer_event_sender.log@.push(event), // @OBL ActivePeersInner::send_event::appends [C04] send_event appends exactly this event
        final(self).connections == old(self).connections, // @OBL ActivePeersInner::send_event::frame_connections [C04] send_event does not touch the connection map
        final(self).closed == old(self).closed, // @OBL ActivePeersInner::send_event::frame_closed [C04] send_event closes nothing
''', sig_rewrites=[('&self', '&mut self')])

    t += _fn_with(C, CM, 'impl ActivePeersInner :: fn add', 'ActivePeersInner::add', ['C04', 'C05', 'C03'], 'r', '''
    ensures
        ({
            let pre = old(self).view();
            let c = new_connection;
            (final(self).view() =~~= add_spec(pre, c, true).0 && r == add_spec(pre, c, true).1)
            || (final(self).view() =~~= add_spec(pre, c, false).0 && r == add_spec(pre, c, false).1)
        }), // @OBL ActivePeersInner::add::transition [C04,C03,C09] add(c): absent -> insert + NewPeer; present -> either (replace: insert, close old, LostPeer(Requested) then NewPeer) or (reject: close new, no event, None); nothing else changes
        ({
            let pre = old(self).view();
            let c = new_connection;
            pre.conns.contains_key(c.peer) && pre.conns[c.peer].orig != c.orig ==> ({
                let post = add_spec(pre, c, keep_new_mixed(*own_peer_id, c.peer, c.orig));
                final(self).connections@ =~= post.0.conns && final(self).closed@ =~= post.0.closed && r == post.1
            })
        }), // @OBL ActivePeersInner::add::mixed_origin_keeps_greater_dialer [C05] with one inbound and one outbound connection to the same peer, the one dialed by the greater PeerId is kept, the other closed
''', '\n        broadcast use axiom_peer_id_key;\n', [ghost_close_log])

    t += C.fn(CM, 'impl ActivePeersInner :: fn simultaneous_dial_tie_breaking', 'ActivePeersInner::simultaneous_dial_tie_breaking', ['C05'], optional=True, ret='r', spec='''
    ensures
        existing_origin != new_origin ==> r == keep_new_mixed(*own_peer_id, *remote_peer_id, new_origin), // @OBL tie_break::mixed_origin [C05,C04] replace the existing connection iff the new one was dialed by the greater PeerId (depends only on ids and directions)
        existing_origin == new_origin ==> r == true, // @OBL tie_break::same_origin [] (from the code comment, not from any property) two connections of the same origin: the newer replaces the older
''', body_prefix='\n        broadcast use axiom_peer_id_order;\n')
    t += '}\n'

    # ---- the lock-protected handle: ActivePeers(Arc<RwLock<ActivePeersInner>>) ------------------------------------
    # X8 lock lifting: Arc<RwLock<T>> becomes T, `self.0.read().unwrap()` a shared borrow, `self.0.write().unwrap()` a
    # unique borrow.  The wrappers then only borrow-check if every mutation goes through ONE write-lock acquisition.
    t += """
// ---------- trusted stand-in: Arc<RwLock<ActivePeersInner>> (mutual exclusion of std::sync::RwLock is assumed) ----------
pub struct ActivePeers(pub ActivePeersInner, pub Ghost<nat>);   // .1 = number of lock acquisitions so far (ghost)
impl ActivePeers {
    pub fn inner(&mut self) -> (r: &ActivePeersInner) ensures *r == old(self).0, final(self).0 == old(self).0, final(self).1@ == old(self).1@ + 1
    { proof { self.1@ = self.1@ + 1; } &self.0 }
    pub fn inner_mut(&mut self) -> (r: &mut ActivePeersInner) ensures *r == old(self).0, *final(r) == final(self).0, final(self).1@ == old(self).1@ + 1
    { proof { self.1@ = self.1@ + 1; } &mut self.0 }
"""
    W = 'impl ActivePeers :: fn '
    t += C.fn(CM, W + 'subscribe', 'ActivePeers::subscribe', ['C04'], optional=True, ret='r', rewrites=[('X5', 'broadcast::Receiver<PeerEvent>', 'Receiver', 1)], sig_rewrites=[('&self', '&mut self')], spec="""
    ensures
        final(self).1@ == old(self).1@ + 1, // @OBL ActivePeers::subscribe::one_critical_section [C04,C06] the whole operation is ONE critical section: exactly one lock acquisition (no check-then-act across two); in particular the lock is never taken a second time while it is held (std RwLock: a recursive read deadlocks as soon as a writer queues between the two)
        final(self).0 == old(self).0, // @OBL ActivePeers::subscribe::read_only [C04] a read operation changes nothing in the set
        r.0.start@ == old(self).0.peer_event_sender.log@.len() && r.1@.to_set() =~= old(self).0.connections@.dom() && r.1@.no_duplicates(), // @OBL ActivePeers::subscribe::delegates [C04] subscribe() takes snapshot and receiver under one lock acquisition
""")
    t += C.fn(CM, W + 'get', 'ActivePeers::get', ['C04', 'C09'], optional=True, ret='r', sig_rewrites=[('&self', '&mut self')], spec="""
    ensures
        final(self).1@ == old(self).1@ + 1, // @OBL ActivePeers::get::one_critical_section [C04,C06] the whole operation is ONE critical section: exactly one lock acquisition (no check-then-act across two); in particular the lock is never taken a second time while it is held (std RwLock: a recursive read deadlocks as soon as a writer queues between the two)
        final(self).0 == old(self).0, // @OBL ActivePeers::get::read_only [C04] a read operation changes nothing in the set
        r == (if old(self).0.connections@.contains_key(*peer_id) { Some(old(self).0.connections@[*peer_id]) } else { None::<Connection> }), // @OBL ActivePeers::get::delegates [C04,C09] get() is the lookup in the locked set
""")
    t += C.fn(CM, W + 'len', 'ActivePeers::len', ['C04', 'C10'], optional=True, ret='r', sig_rewrites=[('&self', '&mut self')], spec="""
    ensures
        final(self).1@ == old(self).1@ + 1, // @OBL ActivePeers::len::one_critical_section [C04,C06] the whole operation is ONE critical section: exactly one lock acquisition (no check-then-act across two); in particular the lock is never taken a second time while it is held (std RwLock: a recursive read deadlocks as soon as a writer queues between the two)
        final(self).0 == old(self).0, // @OBL ActivePeers::len::read_only [C04] a read operation changes nothing in the set
        r == old(self).0.connections@.dom().len(), // @OBL ActivePeers::len::delegates [C04,C10] len() is the size of the locked set
""")
    t += C.fn(CM, W + 'peers', 'ActivePeers::peers', ['C04', 'C09'], optional=True, ret='r', sig_rewrites=[('&self', '&mut self')], spec="""
    ensures
        final(self).1@ == old(self).1@ + 1, // @OBL ActivePeers::peers::one_critical_section [C04,C06] the whole operation is ONE critical section: exactly one lock acquisition; the listing is a snapshot of one instant
        final(self).0 == old(self).0, // @OBL ActivePeers::peers::read_only [C04] a read operation changes nothing in the set
        r@.to_set() =~= old(self).0.connections@.dom() && r@.no_duplicates(), // @OBL ActivePeers::peers::delegates [C04,C05,C09] peers() lists exactly the peers with a live connection in the locked set, each once
""")
    t += C.fn(CM, W + 'remove', 'ActivePeers::remove', ['C04', 'C09'], optional=True, sig_rewrites=[('&self', '&mut self')], spec="""
    ensures
        final(self).1@ == old(self).1@ + 1, // @OBL ActivePeers::remove::one_critical_section [C04,C06] the whole operation is ONE critical section: exactly one lock acquisition (no check-then-act across two); in particular the lock is never taken a second time while it is held (std RwLock: a recursive read deadlocks as soon as a writer queues between the two)
        final(self).0.view() =~~= rm_spec(old(self).0.view(), *peer_id, reason), // @OBL ActivePeers::remove::delegates [C04,C09] remove() is exactly the inner transition, under one write-lock acquisition
""")
    t += C.fn(CM, W + 'remove_with_stable_id', 'ActivePeers::remove_with_stable_id', ['C04', 'C05'], optional=True, sig_rewrites=[('&self', '&mut self')], spec="""
    ensures
        final(self).1@ == old(self).1@ + 1, // @OBL ActivePeers::remove_with_stable_id::one_critical_section [C04,C05,C06] the whole operation is ONE critical section: exactly one lock acquisition (no check-then-act across two); in particular the lock is never taken a second time while it is held (std RwLock: a recursive read deadlocks as soon as a writer queues between the two)
        final(self).0.view() =~~= rm_sid_spec(old(self).0.view(), peer_id, stable_id, reason), // @OBL ActivePeers::remove_with_stable_id::delegates [C04,C05,C09] remove_with_stable_id() is exactly the inner transition, under one write-lock acquisition
""")
    t += C.fn(CM, W + 'add', 'ActivePeers::add', ['C04', 'C05', 'C03'], optional=True, ret='r', sig_rewrites=[('&self', '&mut self')], spec="""
    ensures
        final(self).1@ == old(self).1@ + 1, // @OBL ActivePeers::add::one_critical_section [C04,C05,C06] the whole operation is ONE critical section: exactly one lock acquisition (no check-then-act across two); in particular the lock is never taken a second time while it is held (std RwLock: a recursive read deadlocks as soon as a writer queues between the two)
        ({
            let pre = old(self).0.view();
            let c = new_connection;
            (final(self).0.view() =~~= add_spec(pre, c, true).0 && r == add_spec(pre, c, true).1)
            || (final(self).0.view() =~~= add_spec(pre, c, false).0 && r == add_spec(pre, c, false).1)
        }), // @OBL ActivePeers::add::delegates [C04,C03] add() is exactly the inner transition, under one write-lock acquisition
        ({
            let pre = old(self).0.view();
            let c = new_connection;
            pre.conns.contains_key(c.peer) && pre.conns[c.peer].orig != c.orig ==> ({
                let post = add_spec(pre, c, keep_new_mixed(*own_peer_id, c.peer, c.orig));
                final(self).0.connections@ =~= post.0.conns && final(self).0.closed@ =~= post.0.closed && r == post.1
            })
        }), // @OBL ActivePeers::add::delegates_mixed [C05] the handle passes the node's own id and the new connection through unchanged
""")
    t += '}\n'

    # ---- quinn error -> DisconnectReason (C09) and the tail of InboundRequestHandler::start (C04) ----------------
    t += """
// ---------- trusted stand-in: quinn::ConnectionError (payloads opaque) ----------
pub struct Opaque;
pub enum ConnectionError { VersionMismatch, TransportError(Opaque), ConnectionClosed(Opaque), ApplicationClosed(Opaque), Reset, TimedOut, LocallyClosed, CidsExhausted }
pub mod quinn { pub use super::ConnectionError; }
pub open spec fn reason_of(e: ConnectionError) -> DisconnectReason {
    match e {
        ConnectionError::VersionMismatch => DisconnectReason::VersionMismatch,
        ConnectionError::TransportError(_) => DisconnectReason::TransportError,
        ConnectionError::ConnectionClosed(_) => DisconnectReason::ConnectionClosed,
        ConnectionError::ApplicationClosed(_) => DisconnectReason::ApplicationClosed,
        ConnectionError::Reset => DisconnectReason::Reset,
        ConnectionError::TimedOut => DisconnectReason::TimedOut,
        ConnectionError::LocallyClosed => DisconnectReason::LocallyClosed,
        ConnectionError::CidsExhausted => DisconnectReason::TransportError,
    }
}
impl DisconnectReason {
"""
    t += C.fn(P.TYPES, 'impl DisconnectReason :: fn from_quinn_error', 'DisconnectReason::from_quinn_error', ['C09'], ret='r', spec="""
    ensures
        r == reason_of(*error), // @OBL DisconnectReason::from_quinn_error::mapping [C09] every way a connection can end is mapped to its documented reason (total)
""")
    t += '}\n'
    t += dialing_parts.build(C)
    # the names of the two locals the lifted tail shares with the loop before it are read from the text (renaming them changes nothing)
    try:
        _src = unitlib_extract(C.repo, 'crates/anemo/src/network/request_handler.rs', 'impl InboundRequestHandler :: fn start').text
    except Exception:
        _src = ''
    _mj = re.search(r'let\s+mut\s+(\w+)\s*=\s*(?:tokio::task::)?JoinSet::new\(\)', _src)
    _ml = re.search(r'let\s+(\w+)\s*=\s*loop\b', _src)
    JS, CRN = (_mj.group(1) if _mj else 'inflight_requests'), (_ml.group(1) if _ml else 'close_reason')
    t += C.lifted('crates/anemo/src/network/request_handler.rs', 'impl InboundRequestHandler :: fn start', 'InboundRequestHandler::start::tail',
                  ['C04', 'C05', 'C09'], anchor='let %s = loop' % CRN, kind='tail', name='inbound_request_handler_start_tail', is_async=True,
                  params='active_peers: &mut ActivePeers, connection: &Connection, %s: ConnectionError, %s: &mut JoinSet<()>' % (CRN, JS),
                  inserts=[('X6', '%s.shutdown().await;' % JS, '''assert(active_peers.0.view() =~~= rm_sid_spec(old(active_peers).0.view(), connection.peer, connection.sid, reason_of(CLOSE_REASON))); // @OBL InboundRequestHandler::start::tail::reports_loss_before_teardown [C09,C04,C05] the lost connection is removed and announced BEFORE the handler waits for its in-flight request tasks to be torn down (which can take arbitrarily long): the loss is reported without delay
        '''.replace('CLOSE_REASON', CRN), 'before', True)],
                  rewrites=[('X10', 'self.active_peers', 'active_peers', None), dict(rule='X10', pattern='self.connection', repl='connection', optional=True),
                            dict(rule='X5', pattern='crate::types::DisconnectReason', repl='DisconnectReason', optional=True)],
                  spec="""
    ensures
        final(active_peers).0.view() =~~= rm_sid_spec(old(active_peers).0.view(), connection.peer, connection.sid, reason_of(CLOSE_REASON)), // @OBL InboundRequestHandler::start::tail::removes_own_entry_only [C04,C05,C09] when a connection's handler exits it removes exactly its own entry (matched by stable id) with the mapped reason; a replaced connection's exit changes nothing
""".replace('CLOSE_REASON', CRN))
    t += network_api_parts.build(C)
    t += C.helpers_here()
    t += P.FOOTER
    return t


def _fn_with(C, rel, path, key, props, ret, spec, body_prefix, transforms):
    return C.fn(rel, path, key, props, ret=ret, spec=spec, body_prefix=body_prefix, transforms=transforms, optional=True)
