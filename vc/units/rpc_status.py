"""Unit rpc_status (Verus): what the typed RPC client tells its caller about WHO answered (C01).

Functions under contract: types/response.rs Response::{peer_id, extensions, into_parts, from_parts, status}; rpc/mod.rs Status::{new, from_response,
peer_id, status} and `impl IntoResponse for Status`::into_response.  The generic client `rpc::client::Rpc::unary` (codec, tower service) is NOT
under contract: it reaches the functions here through `Status::from_response(response)` (error replies) and
`response.into_parts()` / `Response::from_parts(parts, message)` (successful replies).
Assumed: http::Extensions as a type-keyed map of which only the PeerId entry is visible; HeaderMap as a ghost map of strings.
"""
import re
import prelude as P

NAME = 'rpc_status'
BACKEND = 'verus'
RESP = 'crates/anemo/src/types/response.rs'
RPC = 'crates/anemo/src/rpc/mod.rs'
TYPES = 'crates/anemo/src/types/mod.rs'

STANDINS = r'''
// ---------- trusted stand-ins ----------
pub struct Bytes { pub v: Vec<u8> }
pub mod bytes { pub use super::Bytes; }
impl Bytes { #[verifier::external_body] pub fn new() -> (r: Bytes) ensures r.v@.len() == 0 { unimplemented!() } }
pub struct BoxError;
impl core::fmt::Debug for BoxError { #[verifier::external_body] fn fmt(&self, f: &mut core::fmt::Formatter<'_>) -> core::fmt::Result { unimplemented!() } }
// crate::types::HeaderMap = HashMap<String, String>
pub struct HeaderMap { pub m: Ghost<Map<Seq<char>, Seq<char>>> }
impl HeaderMap {
    #[verifier::external_body]
    pub fn get(&self, k: &str) -> (r: Option<&String>)
        ensures r is Some <==> self.m@.contains_key(k@), r is Some ==> r->Some_0@ == self.m@[k@] { unimplemented!() }
    #[verifier::external_body]
    pub fn insert(&mut self, k: String, v: String) -> (r: Option<String>) ensures final(self).m@ == old(self).m@.insert(k@, v@) { unimplemented!() }
    #[verifier::external_body]
    pub fn extend(&mut self, other: HeaderMap) ensures final(self).m@ == old(self).m@.union_prefer_right(other.m@) { unimplemented!() }
    #[verifier::external_body]
    pub fn contains_key(&self, k: &str) -> (r: bool) ensures r == self.m@.contains_key(k@) { unimplemented!() }
    #[verifier::external_body]
    pub fn remove(&mut self, k: &str) -> (r: Option<String>) ensures final(self).m@ == old(self).m@.remove(k@) { unimplemented!() }
    #[verifier::external_body]
    pub fn clone(&self) -> (r: HeaderMap) ensures r == *self { unimplemented!() }
}
// the Entry API as far as `entry(k).or_insert(v)` goes: an existing value is kept
pub struct HeaderEntry<'a> { pub map: &'a mut HeaderMap, pub k: String }
impl HeaderMap {
    #[verifier::external_body]
    pub fn entry(&mut self, k: String) -> (r: HeaderEntry<'_>) ensures r.k == k, *r.map == *old(self), *final(r.map) == *final(self) { unimplemented!() }
}
impl<'a> HeaderEntry<'a> {
    #[verifier::external_body]
    pub fn or_insert(self, v: String) -> (r: &'a mut String)
        ensures final(self.map).m@ == (if old(self.map).m@.contains_key(self.k@) { old(self.map).m@ } else { old(self.map).m@.insert(self.k@, v@) }) { unimplemented!() }
}
impl Default for HeaderMap { #[verifier::external_body] fn default() -> (r: HeaderMap) ensures r.m@ == Map::<Seq<char>, Seq<char>>::empty() { unimplemented!() } }
impl HeaderMap { #[verifier::external_body] pub fn new() -> (r: HeaderMap) ensures r.m@ == Map::<Seq<char>, Seq<char>>::empty() { unimplemented!() } }
#[derive(Clone, Copy, Debug)]
pub enum Version { V1 }
// local metadata (http::Extensions): a type-keyed map; `peer` is its PeerId entry -- the identity the network attached to the message after
// decoding it (unit streams: Peer::do_rpc::attributes_connection_identity).  Nothing else in it is visible here.
pub struct Extensions { pub peer: Option<PeerId>, pub rest: Ghost<Map<int, int>> }
impl Default for Extensions { #[verifier::external_body] fn default() -> (r: Extensions) ensures r.peer is None { unimplemented!() } }
pub trait ExtValue: Sized { spec fn of(e: Extensions) -> Option<Self>; }
impl ExtValue for PeerId { open spec fn of(e: Extensions) -> Option<PeerId> { e.peer } }
impl Extensions {
    #[verifier::external_body]
    pub fn get<T: ExtValue>(&self) -> (r: Option<&T>)
        ensures r is Some <==> T::of(*self) is Some, r is Some ==> *r->Some_0 == T::of(*self)->Some_0 { unimplemented!() }
}
pub open spec fn opt_view(o: Option<String>) -> Option<Seq<char>> { match o { Some(s) => Some(s@), None => None } }
pub trait IntoResponse { fn into_response(self) -> Response<Bytes>; }
impl IntoResponse for StatusCode {
    #[verifier::external_body]
    fn into_response(self) -> (r: Response<Bytes>)
        ensures r.head.status == self, r.head.headers.m@ == Map::<Seq<char>, Seq<char>>::empty(), r.head.extensions.peer is None, r.body.v@.len() == 0 { unimplemented!() }
}
'''


def build(ctx):
    return P.HEADER + P.STD_SPECS + build_body(ctx) + ctx.helpers_here() + P.FOOTER


def build_body(ctx):
    C = ctx
    t = P.peer_types(C)
    t += C.item(RESP, 'enum StatusCode', rewrites=[('X5', r'\s*=\s*\d+,', ',', None, True)])
    t += STANDINS
    t += C.item(TYPES, 'mod header', rewrites=[('X9c', '&str', "&'static str", None)])
    t += 'pub mod types { pub use super::header; }\n'
    t += C.item(RESP, 'struct ResponseHeader', derives=False)
    t += C.item(RESP, 'struct Response', derives=False)
    t += 'impl<T> Response<T> {\n'
    t += C.fn(RESP, 'impl <T> Response<T> :: fn from_parts', 'Response::from_parts', ['C01'], ret='r', spec='''
    ensures
        r.head == parts && r.body == body, // @OBL Response::from_parts::keeps_parts [C01] a response rebuilt from parts carries exactly those parts (its extensions, hence its sender identity, included)
''')
    t += C.fn(RESP, 'impl <T> Response<T> :: fn status', 'Response::status', ['C01'], ret='r', spec='''
    ensures
        r == self.head.status, // @OBL Response::status::is_header_status [C01] status() reads the header's status
''')
    t += C.fn(RESP, 'impl <T> Response<T> :: fn extensions', 'Response::extensions', ['C01'], ret='r', spec='''
    ensures
        *r == self.head.extensions, // @OBL Response::extensions::is_header_extensions [C01] extensions() is the local metadata of this response
''')
    t += C.fn(RESP, 'impl <T> Response<T> :: fn headers_mut', 'Response::headers_mut', ['C01'], ret='r', spec='''
    ensures
        *r == old(self).head.headers && final(self).head.headers == *final(r) && final(self).head.status == old(self).head.status
            && final(self).head.extensions == old(self).head.extensions && final(self).head.version == old(self).head.version && final(self).body == old(self).body, // @OBL Response::headers_mut::only_headers [C01] headers_mut() gives access to the headers and nothing else of the response (not to its extensions)
''')
    t += C.fn(RESP, 'impl <T> Response<T> :: fn peer_id', 'Response::peer_id', ['C01'], ret='r', spec='''
    ensures
        r is Some <==> self.head.extensions.peer is Some, // @OBL Response::peer_id::present_iff_attached [C01] a response names a sender exactly when the network attached one
        r is Some ==> *r->Some_0 == self.head.extensions.peer->Some_0, // @OBL Response::peer_id::reads_the_attached_identity [C01] Response::peer_id() is the PeerId entry of the response's local extensions (the authenticated identity of the connection it arrived on): no header, body or status takes part
''')
    t += C.fn(RESP, 'impl <T> Response<T> :: fn into_parts', 'Response::into_parts', ['C01'], ret='r', spec='''
    ensures
        r.0 == self.head && r.1 == self.body, // @OBL Response::into_parts::splits_unchanged [C01] taking a response apart yields its header (with the extensions) and body unchanged
''')
    t += '}\n'
    t += C.item(RPC, 'struct Status', derives=False)
    t += 'impl Status {\n'
    t += C.fn(RPC, 'impl Status :: fn new', 'Status::new', ['C01'], ret='r', spec='''
    ensures
        r.peer_id is None && r.status == status && r.message is None && r.headers.m@ == Map::<Seq<char>, Seq<char>>::empty(), // @OBL Status::new::names_nobody [C01] a locally created status names no peer
''')
    t += C.fn(RPC, 'impl Status :: fn status', 'Status::status', ['C01'], ret='r', spec='''
    ensures
        r == self.status, // @OBL Status::status::field [C01] status() reads the field
''')
    t += C.fn(RPC, 'impl Status :: fn peer_id', 'Status::peer_id', ['C01'], ret='r', spec='''
    ensures
        r is Some <==> self.peer_id is Some, // @OBL Status::peer_id::present_iff_recorded [C01] Status::peer_id() is present exactly when an identity was recorded
        r is Some ==> *r->Some_0 == self.peer_id->Some_0, // @OBL Status::peer_id::reads_the_recorded_identity [C01] Status::peer_id() returns the recorded identity
''')
    t += C.fn(RPC, 'impl Status :: fn from_response', 'Status::from_response', ['C01'], ret='r', pub=True, spec='''
    ensures
        r.peer_id == response.head.extensions.peer, // @OBL Status::from_response::identity_is_the_connections [C01] the PeerId a caller sees on an error reply is the identity the network attached to that response (the authenticated peer of the connection), whatever the reply's headers, status or body say
        r.status == response.head.status, // @OBL Status::from_response::status_kept [C01] the status is the reply's status
        r.headers == response.head.headers, // @OBL Status::from_response::headers_kept [C01] the headers are the reply's headers
        opt_view(r.message) == (if response.head.headers.m@.contains_key(header::STATUS_MESSAGE@) { Some(response.head.headers.m@[header::STATUS_MESSAGE@]) } else { None::<Seq<char>> }), // @OBL Status::from_response::message_from_its_header [C01] the message is the status-message header, nothing else
''')
    t += '}\nimpl IntoResponse for Status {\n'
    t += C.fn(RPC, 'impl IntoResponse for Status :: fn into_response', 'Status::into_response', ['C01'], ret='r', pub=False, spec='''
    ensures
        r.head.extensions.peer is None, // @OBL Status::into_response::sends_no_identity [C01] turning a status into a reply attaches no identity: who sent a reply is decided by the receiving side from the connection
        forall|k: Seq<char>| #[trigger] r.head.headers.m@.contains_key(k) ==> k == header::STATUS_MESSAGE@ || self.headers.m@.contains_key(k), // @OBL Status::into_response::adds_only_the_message_header [C01] the reply carries the status's own headers plus at most the status-message header: in particular nothing derived from the recorded peer identity
        r.head.status == self.status, // @OBL Status::into_response::status_kept [C01,C17] the reply's status is the status's code
        forall|k: Seq<char>| #[trigger] self.headers.m@.contains_key(k) && k != header::STATUS_MESSAGE@ ==> r.head.headers.m@.contains_key(k) && r.head.headers.m@[k] == self.headers.m@[k], // @OBL Status::into_response::headers_intact [C17] every header of the status travels with the reply, unchanged
        self.message is Some ==> r.head.headers.m@.contains_key(header::STATUS_MESSAGE@) && r.head.headers.m@[header::STATUS_MESSAGE@] == self.message->Some_0@, // @OBL Status::into_response::message_travels_as_its_header [C17] the message travels as the status-message header
''')
    t += '}\n'
    return t
