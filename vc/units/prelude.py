"""Shared rendered fragments: extracted basic types and the trusted stand-ins several units need."""

HEADER = '''// GENERATED on every run by /verif/vc from /repo's working tree -- do not edit
#![feature(allocator_api)]
#![allow(unused_imports, dead_code, unused_variables, unused_mut, non_upper_case_globals, unused_parens, unused_braces)]
use vstd::prelude::*;
use core::cmp::Ordering;
use vstd::std_specs::cmp::*;
use std::collections::HashMap;
use std::collections::HashSet;
use std::collections::hash_map::Entry;
verus! {
'''

FOOTER = '''
fn main() {}
} // verus!
'''

PEER_ID = 'crates/anemo/src/types/peer_id.rs'
TYPES = 'crates/anemo/src/types/mod.rs'
CM = 'crates/anemo/src/network/connection_manager.rs'


def peer_types(ctx):
    """PeerId, Direction, ConnectionOrigin (+ its two constants), verbatim"""
    t = ctx.item(PEER_ID, 'const PEER_ID_LENGTH')
    # `Structural`: the derived PartialEq of a plain data type is structural equality (needed for exec `==` / `!=` in Verus)
    t += ctx.item(PEER_ID, 'struct PeerId', extra_derive=(['Structural'] if ctx.flavour == 'verus' else []))
    t += ctx.item(PEER_ID, 'enum Direction')
    t += ctx.item(PEER_ID, 'struct ConnectionOrigin')
    t += 'impl ConnectionOrigin {\n'
    t += ctx.item(PEER_ID, 'impl ConnectionOrigin :: const Inbound')
    t += ctx.item(PEER_ID, 'impl ConnectionOrigin :: const Outbound')
    t += '}\n'
    return t


def event_types(ctx):
    t = ctx.item(TYPES, 'enum DisconnectReason')
    t += ctx.item(TYPES, 'enum PeerEvent')
    return t


# trusted: derived order / equality / hashing of PeerId.  The order axiom is proved by Kani on the real derived
# impl over all 2^512 pairs (unit kani_peer_id_order), the key-model axiom is an assumption on #[derive(Hash, Eq)].
PEER_ID_AXIOMS = '''
// ---------- trusted stand-ins for derived impls on PeerId ----------
pub open spec fn lex_lt(a: Seq<u8>, b: Seq<u8>) -> bool decreases a.len()
{ if a.len() == 0 || b.len() == 0 { false } else if a[0] != b[0] { a[0] < b[0] } else { lex_lt(a.drop_first(), b.drop_first()) } }

#[verifier::external_body]
pub broadcast proof fn axiom_peer_id_order(a: PeerId, b: PeerId)
    ensures #![trigger a.partial_cmp_spec(&b)]
        <PeerId as PartialOrdSpec>::obeys_partial_cmp_spec(),
        (a.partial_cmp_spec(&b) == Some(Ordering::Less)) == lex_lt(a.0@, b.0@),
{}

#[verifier::external_body]
pub broadcast proof fn axiom_peer_id_eq(a: PeerId, b: PeerId)
    ensures #![trigger a.eq_spec(&b)]
        <PeerId as PartialEqSpec>::obeys_eq_spec(),
        a.eq_spec(&b) == (a == b),
{}

#[verifier::external_body]
pub broadcast proof fn axiom_peer_id_key() ensures #[trigger] vstd::std_specs::hash::obeys_key_model::<PeerId>() {}

// lexicographic order on equal-length byte strings is a strict total order (proved, not assumed)
pub proof fn lemma_lex_trichotomy(a: Seq<u8>, b: Seq<u8>)
    requires a.len() == b.len()
    ensures a == b || lex_lt(a, b) || lex_lt(b, a), !(lex_lt(a, b) && lex_lt(b, a)), a == b ==> !lex_lt(a, b)
    decreases a.len()
{
    if a.len() == 0 { assert(a =~= b); }
    else if a[0] != b[0] { }
    else {
        lemma_lex_trichotomy(a.drop_first(), b.drop_first());
        if a.drop_first() == b.drop_first() { assert(a =~= seq![a[0]] + a.drop_first()); assert(b =~= seq![b[0]] + b.drop_first()); assert(a =~= b); }
    }
}
'''

CONNECTION_STANDIN = '''
// ---------- trusted stand-in: crate::connection::Connection (a clonable handle on one quinn connection) ----------
pub struct SocketAddr { pub a: u64 }
pub struct Connection { pub sid: usize, pub peer: PeerId, pub orig: ConnectionOrigin, pub established: Instant, pub addr: u64 }
impl Clone for Connection {
    #[verifier::external_body]
    fn clone(&self) -> (r: Self) ensures r == *self { unimplemented!() }
}
impl Connection {
    #[verifier::external_body] pub fn peer_id(&self) -> (r: PeerId) ensures r == self.peer { unimplemented!() }
    #[verifier::external_body] pub fn origin(&self) -> (r: ConnectionOrigin) ensures r == self.orig { unimplemented!() }
    #[verifier::external_body] pub fn stable_id(&self) -> (r: usize) ensures r == self.sid { unimplemented!() }
    #[verifier::external_body] pub fn time_established(&self) -> (r: Instant) ensures r == self.established { unimplemented!() }
    #[verifier::external_body] pub fn remote_address(&self) -> (r: SocketAddr) ensures r.a == self.addr { unimplemented!() }
    #[verifier::external_body] pub fn rtt(&self) -> (r: Duration) { unimplemented!() }
    #[verifier::external_body] pub fn close(&self) { unimplemented!() }
    // observers of the connection's state that an edit may reach for (quinn: close_reason / a derived is_closed): whatever they answer, the
    // obligations around them have to hold
    #[verifier::external_body] pub fn is_closed(&self) -> (r: bool) { unimplemented!() }
    #[verifier::external_body] pub fn close_reason(&self) -> (r: Option<ConnectionError>) { unimplemented!() }
}
'''

BROADCAST_STANDIN = '''
// ---------- trusted stand-in: tokio::sync::broadcast (send appends to the log; a receiver created at log length n
// sees exactly log[n..]; lag of slow receivers is excluded) ----------
pub struct Sender { pub log: Ghost<Seq<PeerEvent>> }
pub struct Receiver { pub start: Ghost<nat> }
impl Sender {
    #[verifier::external_body]
    pub fn send(&mut self, e: PeerEvent) -> (r: Result<usize, ()>)
        ensures final(self).log@ == old(self).log@.push(e) { unimplemented!() }
    #[verifier::external_body]
    pub fn subscribe(&self) -> (r: Receiver)
        ensures r.start@ == self.log@.len() { unimplemented!() }
}
pub mod broadcast {
    use super::*;
    #[verifier::external_body]
    pub fn channel(capacity: usize) -> (r: (Sender, Receiver))
        ensures r.0.log@ == Seq::<PeerEvent>::empty(), r.1.start@ == 0 { unimplemented!() }
}
'''

# std combinators that have no vstd specification in this Verus build (assumed; they are pure, total and tiny)
STD_SPECS = '''
// ---------- assumed specifications of std combinators missing from vstd ----------
pub assume_specification<T, E>[core::result::Result::<T, E>::unwrap_or](r: core::result::Result<T, E>, default: T) -> (out: T)
    ensures out == (match r { Ok(v) => v, Err(_) => default });
pub assume_specification<T, E, F>[core::result::Result::<T, E>::or::<F>](r: core::result::Result<T, E>, res: core::result::Result<T, F>) -> (out: core::result::Result<T, F>)
    ensures out == (match r { Ok(v) => Ok::<T, F>(v), Err(_) => res });
pub assume_specification<T, E, U>[core::result::Result::<T, E>::and::<U>](r: core::result::Result<T, E>, res: core::result::Result<U, E>) -> (out: core::result::Result<U, E>)
    ensures out == (match r { Ok(_) => res, Err(e) => Err::<U, E>(e) });
pub assume_specification<T, U, F: FnOnce(T) -> U>[core::option::Option::<T>::map_or::<U, F>](o: Option<T>, default: U, f: F) -> (out: U)
    requires o is Some ==> f.requires((o->Some_0,)),
    ensures o is None ==> out == default, o is Some ==> f.ensures((o->Some_0,), out);
pub assume_specification<T, U, D: FnOnce() -> U, F: FnOnce(T) -> U>[core::option::Option::<T>::map_or_else::<U, D, F>](o: Option<T>, default: D, f: F) -> (out: U)
    requires o is Some ==> f.requires((o->Some_0,)), o is None ==> default.requires(()),
    ensures o is None ==> default.ensures((), out), o is Some ==> f.ensures((o->Some_0,), out);
pub assume_specification<T>[core::mem::drop::<T>](x: T);
pub assume_specification<'a, T: Copy>[core::option::Option::<&'a T>::copied](o: Option<&'a T>) -> (out: Option<T>)
    ensures out == (match o { Some(v) => Some(*v), None => None::<T> });
pub assume_specification<T, F: FnOnce(T) -> bool>[core::option::Option::<T>::is_some_and](o: Option<T>, f: F) -> (out: bool)
    requires o is Some ==> f.requires((o->Some_0,)),
    ensures o is None ==> !out, o is Some ==> f.ensures((o->Some_0,), out);
pub assume_specification<T>[core::option::Option::<T>::or](o: Option<T>, optb: Option<T>) -> (out: Option<T>)
    ensures out == (match o { Some(v) => Some(v), None => optb });
pub assume_specification<T>[core::option::Option::<T>::xor](o: Option<T>, optb: Option<T>) -> (out: Option<T>)
    ensures out == (match (o, optb) { (Some(a), None) => Some(a), (None, Some(b)) => Some(b), _ => None });
pub assume_specification<T, U>[core::option::Option::<T>::and::<U>](o: Option<T>, optb: Option<U>) -> (out: Option<U>)
    ensures out == (match o { Some(_) => optb, None => None::<U> });
pub assume_specification<T, U>[core::option::Option::<T>::zip::<U>](o: Option<T>, other: Option<U>) -> (out: Option<(T, U)>)
    ensures out == (match (o, other) { (Some(a), Some(b)) => Some((a, b)), _ => None::<(T, U)> });
pub assume_specification<T, F: FnOnce(&T) -> bool>[core::option::Option::<T>::filter::<F>](o: Option<T>, f: F) -> (out: Option<T>)
    requires o is Some ==> f.requires((&o->Some_0,)),
    ensures o is None ==> out is None, o is Some ==> (f.ensures((&o->Some_0,), true) ==> out == o) && (f.ensures((&o->Some_0,), false) ==> out is None), out is Some ==> out == o;
pub assume_specification<T, E, F: FnOnce(T) -> bool>[core::result::Result::<T, E>::is_ok_and](r: core::result::Result<T, E>, f: F) -> (out: bool)
    requires r is Ok ==> f.requires((r->Ok_0,)),
    ensures r is Err ==> !out, r is Ok ==> f.ensures((r->Ok_0,), out);
'''

# std::time::{Duration, Instant} as nanosecond naturals (machine representation: u64 secs + u32 nanos => Duration <= dmax)
TIME_STANDIN = '''
// ---------- trusted stand-in: std::time::{Duration, Instant} as mathematical nanosecond counts ----------
pub open spec fn dmax() -> nat { (18446744073709551615 * 1000000000 + 999999999) as nat }
pub open spec fn natmin(a: nat, b: nat) -> nat { if a <= b { a } else { b } }
#[derive(Clone, Copy)]
pub struct Duration { pub ns: Ghost<nat> }
#[derive(Clone, Copy)]
pub struct Instant { pub t: Ghost<nat> }
impl PartialEq for Duration { #[verifier::external_body] fn eq(&self, o: &Self) -> (r: bool) ensures r == (self.ns@ == o.ns@) { unimplemented!() } }
impl PartialOrd for Duration {
    #[verifier::external_body] fn partial_cmp(&self, o: &Self) -> (r: Option<Ordering>) { unimplemented!() }
    #[verifier::external_body] fn lt(&self, o: &Self) -> (r: bool) ensures r == (self.ns@ < o.ns@) { unimplemented!() }
    #[verifier::external_body] fn le(&self, o: &Self) -> (r: bool) ensures r == (self.ns@ <= o.ns@) { unimplemented!() }
    #[verifier::external_body] fn gt(&self, o: &Self) -> (r: bool) ensures r == (self.ns@ > o.ns@) { unimplemented!() }
    #[verifier::external_body] fn ge(&self, o: &Self) -> (r: bool) ensures r == (self.ns@ >= o.ns@) { unimplemented!() }
}
impl PartialEq for Instant { #[verifier::external_body] fn eq(&self, o: &Self) -> (r: bool) ensures r == (self.t@ == o.t@) { unimplemented!() } }
impl PartialOrd for Instant {
    #[verifier::external_body] fn partial_cmp(&self, o: &Self) -> (r: Option<Ordering>) { unimplemented!() }
    #[verifier::external_body] fn lt(&self, o: &Self) -> (r: bool) ensures r == (self.t@ < o.t@) { unimplemented!() }
    #[verifier::external_body] fn le(&self, o: &Self) -> (r: bool) ensures r == (self.t@ <= o.t@) { unimplemented!() }
    #[verifier::external_body] fn gt(&self, o: &Self) -> (r: bool) ensures r == (self.t@ > o.t@) { unimplemented!() }
    #[verifier::external_body] fn ge(&self, o: &Self) -> (r: bool) ensures r == (self.t@ >= o.t@) { unimplemented!() }
}
impl Duration {
    // (const fn with a never-executed zero-sized body so that extracted `const X: Duration = Duration::from_secs(..)` items still compile)
    #[verifier::external_body] pub const fn from_nanos(n: u64) -> (r: Duration) ensures r.ns@ == n as nat { unsafe { core::mem::zeroed() } }
    #[verifier::external_body] pub const fn from_micros(n: u64) -> (r: Duration) ensures r.ns@ == n as nat * 1000 { unsafe { core::mem::zeroed() } }
    #[verifier::external_body] pub const fn from_millis(n: u64) -> (r: Duration) ensures r.ns@ == n as nat * 1000000 { unsafe { core::mem::zeroed() } }
    #[verifier::external_body] pub const fn from_secs(n: u64) -> (r: Duration) ensures r.ns@ == n as nat * 1000000000 { unsafe { core::mem::zeroed() } }
    #[verifier::external_body] pub fn as_nanos(&self) -> (r: u128) requires self.ns@ <= dmax() ensures r as nat == self.ns@ { unimplemented!() }
    #[verifier::external_body] pub fn as_millis(&self) -> (r: u128) requires self.ns@ <= dmax() ensures r as nat == self.ns@ / 1000000 { unimplemented!() }
    #[verifier::external_body] pub fn saturating_mul(self, rhs: u32) -> (r: Duration) ensures r.ns@ == natmin(self.ns@ * rhs as nat, dmax()) { unimplemented!() }
    #[verifier::external_body] pub fn saturating_add(self, rhs: Duration) -> (r: Duration) ensures r.ns@ == natmin(self.ns@ + rhs.ns@, dmax()) { unimplemented!() }
    #[verifier::external_body] pub fn saturating_sub(self, rhs: Duration) -> (r: Duration) ensures r.ns@ == (if self.ns@ >= rhs.ns@ { (self.ns@ - rhs.ns@) as nat } else { 0 }) { unimplemented!() }
    // (further std observers / total operations that edits commonly reach for)
    #[verifier::external_body] pub fn checked_sub(self, rhs: Duration) -> (r: Option<Duration>) ensures r is Some <==> self.ns@ >= rhs.ns@, r is Some ==> r->Some_0.ns@ == self.ns@ - rhs.ns@ { unimplemented!() }
    #[verifier::external_body] pub fn checked_add(self, rhs: Duration) -> (r: Option<Duration>) ensures r is Some <==> self.ns@ + rhs.ns@ <= dmax(), r is Some ==> r->Some_0.ns@ == self.ns@ + rhs.ns@ { unimplemented!() }
    #[verifier::external_body] pub fn is_zero(&self) -> (r: bool) ensures r == (self.ns@ == 0) { unimplemented!() }
    #[verifier::external_body] pub fn as_secs(&self) -> (r: u64) requires self.ns@ <= dmax() ensures r as nat == self.ns@ / 1000000000 { unimplemented!() }
}
impl Instant {
    #[verifier::external_body] pub fn now() -> (r: Instant) { unimplemented!() }
    #[verifier::external_body] pub fn elapsed(&self) -> (r: Duration) { unimplemented!() }
    #[verifier::external_body] pub fn saturating_duration_since(&self, earlier: Instant) -> (r: Duration) ensures r.ns@ == (if self.t@ >= earlier.t@ { (self.t@ - earlier.t@) as nat } else { 0 }) { unimplemented!() }
    #[verifier::external_body] pub fn checked_duration_since(&self, earlier: Instant) -> (r: Option<Duration>) ensures r is Some <==> self.t@ >= earlier.t@, r is Some ==> r->Some_0.ns@ == self.t@ - earlier.t@ { unimplemented!() }
}
pub mod cmp {
    use super::*;
    pub trait MinMax: Sized { spec fn key(&self) -> nat; }
    impl MinMax for Duration { open spec fn key(&self) -> nat { self.ns@ } }
    impl MinMax for Instant { open spec fn key(&self) -> nat { self.t@ } }
    impl MinMax for usize { open spec fn key(&self) -> nat { *self as nat } }
    impl MinMax for u64 { open spec fn key(&self) -> nat { *self as nat } }
    #[verifier::external_body]
    pub fn min<T: MinMax>(a: T, b: T) -> (r: T) ensures r == (if a.key() <= b.key() { a } else { b }) { unimplemented!() }
    #[verifier::external_body]
    pub fn max<T: MinMax>(a: T, b: T) -> (r: T) ensures r == (if b.key() >= a.key() { b } else { a }) { unimplemented!() }
}
// Duration - Duration panics on underflow in std: the subtraction carries that as a precondition (a panic-freedom obligation)
impl vstd::std_specs::ops::SubSpecImpl<Duration> for Duration {
    open spec fn obeys_sub_spec() -> bool { true }
    open spec fn sub_req(self, rhs: Duration) -> bool { self.ns@ >= rhs.ns@ }
    open spec fn sub_spec(self, rhs: Duration) -> Duration { Duration { ns: Ghost((self.ns@ - rhs.ns@) as nat) } }
}
impl core::ops::Sub<Duration> for Duration {
    type Output = Duration;
    #[verifier::external_body] fn sub(self, rhs: Duration) -> (r: Duration) { unimplemented!() }
}
impl vstd::std_specs::ops::AddSpecImpl<Duration> for Duration {
    open spec fn obeys_add_spec() -> bool { true }
    open spec fn add_req(self, rhs: Duration) -> bool { self.ns@ + rhs.ns@ <= dmax() }
    open spec fn add_spec(self, rhs: Duration) -> Duration { Duration { ns: Ghost((self.ns@ + rhs.ns@) as nat) } }
}
impl core::ops::Add<Duration> for Duration {
    type Output = Duration;
    #[verifier::external_body] fn add(self, rhs: Duration) -> (r: Duration) { unimplemented!() }
}
impl vstd::std_specs::ops::AddSpecImpl<Duration> for Instant {
    open spec fn obeys_add_spec() -> bool { true }
    open spec fn add_req(self, rhs: Duration) -> bool { true }     // ASSUMED: Instant + Duration does not overflow the platform clock
    open spec fn add_spec(self, rhs: Duration) -> Instant { Instant { t: Ghost((self.t@ + rhs.ns@) as nat) } }
}
impl core::ops::Add<Duration> for Instant {
    type Output = Instant;
    #[verifier::external_body] fn add(self, rhs: Duration) -> (r: Instant) { unimplemented!() }
}
'''
