"""Shared rendered fragments: extracted basic types and the trusted stand-ins several units need."""

HEADER = '''// GENERATED on every run by /verif/vc from /repo's working tree -- do not edit
#![allow(unused_imports, dead_code, unused_variables, unused_mut, non_upper_case_globals, unused_parens, unused_braces)]
use vstd::prelude::*;
use core::cmp::Ordering;
use vstd::std_specs::cmp::*;
use std::collections::HashMap;
use std::collections::HashSet;
use std::collections::hash_map::Entry;
verus! {
'''

FOOTER = '''
fn main() {}
} // verus!
'''

PEER_ID = 'crates/anemo/src/types/peer_id.rs'
TYPES = 'crates/anemo/src/types/mod.rs'
CM = 'crates/anemo/src/network/connection_manager.rs'


def peer_types(ctx):
    """PeerId, Direction, ConnectionOrigin (+ its two constants), verbatim"""
    t = ctx.item(PEER_ID, 'const PEER_ID_LENGTH')
    t += ctx.item(PEER_ID, 'struct PeerId')
    t += ctx.item(PEER_ID, 'enum Direction')
    t += ctx.item(PEER_ID, 'struct ConnectionOrigin')
    t += 'impl ConnectionOrigin {\n'
    t += ctx.item(PEER_ID, 'impl ConnectionOrigin :: const Inbound')
    t += ctx.item(PEER_ID, 'impl ConnectionOrigin :: const Outbound')
    t += '}\n'
    return t


def event_types(ctx):
    t = ctx.item(TYPES, 'enum DisconnectReason')
    t += ctx.item(TYPES, 'enum PeerEvent')
    return t


# trusted: derived order / equality / hashing of PeerId.  The order axiom is proved by Kani on the real derived
# impl over all 2^512 pairs (unit kani_peer_id_order), the key-model axiom is an assumption on #[derive(Hash, Eq)].
PEER_ID_AXIOMS = '''
// ---------- trusted stand-ins for derived impls on PeerId ----------
pub open spec fn lex_lt(a: Seq<u8>, b: Seq<u8>) -> bool decreases a.len()
{ if a.len() == 0 || b.len() == 0 { false } else if a[0] != b[0] { a[0] < b[0] } else { lex_lt(a.drop_first(), b.drop_first()) } }

#[verifier::external_body]
pub broadcast proof fn axiom_peer_id_order(a: PeerId, b: PeerId)
    ensures #![trigger a.partial_cmp_spec(&b)]
        <PeerId as PartialOrdSpec>::obeys_partial_cmp_spec(),
        (a.partial_cmp_spec(&b) == Some(Ordering::Less)) == lex_lt(a.0@, b.0@),
{}

#[verifier::external_body]
pub broadcast proof fn axiom_peer_id_eq(a: PeerId, b: PeerId)
    ensures #![trigger a.eq_spec(&b)]
        <PeerId as PartialEqSpec>::obeys_eq_spec(),
        a.eq_spec(&b) == (a == b),
{}

#[verifier::external_body]
pub broadcast proof fn axiom_peer_id_key() ensures #[trigger] vstd::std_specs::hash::obeys_key_model::<PeerId>() {}

// lexicographic order on equal-length byte strings is a strict total order (proved, not assumed)
pub proof fn lemma_lex_trichotomy(a: Seq<u8>, b: Seq<u8>)
    requires a.len() == b.len()
    ensures a == b || lex_lt(a, b) || lex_lt(b, a), !(lex_lt(a, b) && lex_lt(b, a)), a == b ==> !lex_lt(a, b)
    decreases a.len()
{
    if a.len() == 0 { assert(a =~= b); }
    else if a[0] != b[0] { }
    else {
        lemma_lex_trichotomy(a.drop_first(), b.drop_first());
        if a.drop_first() == b.drop_first() { assert(a =~= seq![a[0]] + a.drop_first()); assert(b =~= seq![b[0]] + b.drop_first()); assert(a =~= b); }
    }
}
'''

CONNECTION_STANDIN = '''
// ---------- trusted stand-in: crate::connection::Connection (a clonable handle on one quinn connection) ----------
pub struct Connection { pub sid: usize, pub peer: PeerId, pub orig: ConnectionOrigin }
impl Clone for Connection {
    #[verifier::external_body]
    fn clone(&self) -> (r: Self) ensures r == *self { unimplemented!() }
}
impl Connection {
    #[verifier::external_body] pub fn peer_id(&self) -> (r: PeerId) ensures r == self.peer { unimplemented!() }
    #[verifier::external_body] pub fn origin(&self) -> (r: ConnectionOrigin) ensures r == self.orig { unimplemented!() }
    #[verifier::external_body] pub fn stable_id(&self) -> (r: usize) ensures r == self.sid { unimplemented!() }
    #[verifier::external_body] pub fn close(&self) { unimplemented!() }
}
'''

BROADCAST_STANDIN = '''
// ---------- trusted stand-in: tokio::sync::broadcast (send appends to the log; a receiver created at log length n
// sees exactly log[n..]; lag of slow receivers is excluded) ----------
pub struct Sender { pub log: Ghost<Seq<PeerEvent>> }
pub struct Receiver { pub start: Ghost<nat> }
impl Sender {
    #[verifier::external_body]
    pub fn send(&mut self, e: PeerEvent) -> (r: Result<usize, ()>)
        ensures final(self).log@ == old(self).log@.push(e) { unimplemented!() }
    #[verifier::external_body]
    pub fn subscribe(&self) -> (r: Receiver)
        ensures r.start@ == self.log@.len() { unimplemented!() }
}
pub mod broadcast {
    use super::*;
    #[verifier::external_body]
    pub fn channel(capacity: usize) -> (r: (Sender, Receiver))
        ensures r.0.log@ == Seq::<PeerEvent>::empty(), r.1.start@ == 0 { unimplemented!() }
}
'''

# std combinators that have no vstd specification in this Verus build (assumed; they are pure, total and tiny)
STD_SPECS = '''
// ---------- assumed specifications of std combinators missing from vstd ----------
pub assume_specification<T, E>[core::result::Result::<T, E>::unwrap_or](r: core::result::Result<T, E>, default: T) -> (out: T)
    ensures out == (match r { Ok(v) => v, Err(_) => default });
pub assume_specification<T, E, F>[core::result::Result::<T, E>::or::<F>](r: core::result::Result<T, E>, res: core::result::Result<T, F>) -> (out: core::result::Result<T, F>)
    ensures out == (match r { Ok(v) => Ok::<T, F>(v), Err(_) => res });
pub assume_specification<T, E, U>[core::result::Result::<T, E>::and::<U>](r: core::result::Result<T, E>, res: core::result::Result<U, E>) -> (out: core::result::Result<U, E>)
    ensures out == (match r { Ok(_) => res, Err(e) => Err::<U, E>(e) });
pub assume_specification<T>[core::option::Option::<T>::or](o: Option<T>, optb: Option<T>) -> (out: Option<T>)
    ensures out == (match o { Some(v) => Some(v), None => optb });
pub assume_specification<T>[core::option::Option::<T>::xor](o: Option<T>, optb: Option<T>) -> (out: Option<T>)
    ensures out == (match (o, optb) { (Some(a), None) => Some(a), (None, Some(b)) => Some(b), _ => None });
pub assume_specification<T, U>[core::option::Option::<T>::and::<U>](o: Option<T>, optb: Option<U>) -> (out: Option<U>)
    ensures out == (match o { Some(_) => optb, None => None::<U> });
'''
