"""Unit kani_wire (Kani, complete): version preamble reader/writer and the closed sets of versions and status codes.
read_version_frame / write_version_frame stay verbatim `async`; they run against an executable in-memory stream whose
futures are always ready, polled once.  All harnesses are loop-free over full-domain inputs (the only loops are the
fixed 8-byte copies, closed by unwind(10) with unwinding assertions on): complete proofs, not bounded ones."""
NAME = 'kani_wire'
BACKEND = 'kani'
WIRE = 'crates/anemo/src/network/wire.rs'
TYPES = 'crates/anemo/src/types/mod.rs'
RESP = 'crates/anemo/src/types/response.rs'

PRELUDE = r'''// GENERATED on every run by /verif/vc from /repo's working tree -- do not edit
#![allow(dead_code, unused, non_upper_case_globals)]
use std::future::Future;
// ---------- stand-ins (executable) ----------
#[derive(Debug)]
pub struct Error;
impl Error { pub fn msg() -> Self { Error } }
pub type Result<T, E = Error> = std::result::Result<T, E>;
pub trait AsyncRead {
    fn read_exact<'a>(&'a mut self, buf: &'a mut [u8]) -> impl Future<Output = Result<usize>> + 'a;
    // tokio's AsyncReadExt::read: SOME of the available bytes (at least one unless none is left or the buffer is empty), how many is up to the transport
    fn read<'a>(&'a mut self, buf: &'a mut [u8]) -> impl Future<Output = Result<usize>> + 'a;
}
#[cfg(kani)] fn transport_delivers(cap: usize) -> usize { let n: usize = kani::any(); kani::assume(1 <= n && n <= cap); n }
#[cfg(not(kani))] fn transport_delivers(cap: usize) -> usize { cap }
pub trait AsyncWrite { fn write_all<'a>(&'a mut self, buf: &'a [u8]) -> impl Future<Output = Result<()>> + 'a; }
// in-memory stream: `len` bytes of `data` are available; reading past the end is an error (EOF), as tokio's read_exact
pub struct MemStream<const N: usize> { pub data: [u8; N], pub len: usize, pub pos: usize }
impl<const N: usize> AsyncRead for MemStream<N> {
    async fn read_exact(&mut self, buf: &mut [u8]) -> Result<usize> {
        if self.len - self.pos < buf.len() {
            // like tokio's read_exact: whatever is available is copied into the buffer before UnexpectedEof is reported
            let avail = self.len - self.pos;
            let mut i = 0;
            while i < avail { buf[i] = self.data[self.pos + i]; i += 1; }
            self.pos = self.len;
            return Err(Error);
        }
        buf.copy_from_slice(&self.data[self.pos..self.pos + buf.len()]);
        self.pos += buf.len();
        Ok(buf.len())
    }
    async fn read(&mut self, buf: &mut [u8]) -> Result<usize> {
        let avail = self.len - self.pos;
        let cap = if avail < buf.len() { avail } else { buf.len() };
        if cap == 0 { return Ok(0); }
        let n = transport_delivers(cap);
        let mut i = 0;
        while i < n { buf[i] = self.data[self.pos + i]; i += 1; }
        self.pos += n;
        Ok(n)
    }
}
impl<const N: usize> AsyncWrite for MemStream<N> {
    async fn write_all(&mut self, buf: &[u8]) -> Result<()> {
        if N - self.len < buf.len() { return Err(Error); }
        self.data[self.len..self.len + buf.len()].copy_from_slice(buf);
        self.len += buf.len();
        Ok(())
    }
}
// header map / extensions: opaque values that are only moved around by the code under test
#[derive(Default, Clone, PartialEq, Debug)]
pub struct HeaderMap(pub u8);
#[derive(Default, Debug)]
pub struct Extensions { pub entries: u8 }
impl From<InvalidStatusCodeError> for Error { fn from(_: InvalidStatusCodeError) -> Self { Error } }
pub fn block_on<F: Future>(f: F) -> F::Output {
    let mut f = std::pin::pin!(f);
    let mut cx = std::task::Context::from_waker(std::task::Waker::noop());
    match f.as_mut().poll(&mut cx) { std::task::Poll::Ready(v) => v, std::task::Poll::Pending => panic!("stand-in futures are always ready") }
}
'''

HARNESS = r'''
#[cfg(kani)]
mod harness {
    use super::*;
    const PREAMBLE_V1: [u8; 8] = [b'a', b'n', b'e', b'm', b'o', 0, 1, 0];

    #[kani::proof]
    #[kani::unwind(10)]
    fn read_version_total_and_exact() { // @KOBL [C07,C06] for all 2^64 contents and every available length 0..=8: never panics; accepts exactly the 8 bytes 'anemo',0,1,0 (consuming 8 bytes, V1); every strict prefix, other preamble, non-zero reserved byte or unknown version is an error
        let data: [u8; 8] = kani::any();
        let len: usize = kani::any();
        kani::assume(len <= 8);
        let mut s = MemStream::<8> { data, len, pos: 0 };
        let r = block_on(read_version_frame(&mut s));
        let valid = len == 8 && data == PREAMBLE_V1;
        assert!(r.is_ok() == valid);
        if let Ok(v) = r { assert!(v == Version::V1 && s.pos == 8); }
    }
    #[kani::proof]
    #[kani::unwind(10)]
    fn read_version_consumes_only_eight() { // @KOBL [C07] with more bytes following, exactly 8 are consumed by the preamble reader
        let data: [u8; 12] = kani::any();
        let mut s = MemStream::<12> { data, len: 12, pos: 0 };
        let r = block_on(read_version_frame(&mut s));
        if r.is_ok() { assert!(s.pos == 8); }
        assert!(r.is_ok() == (data[0..8] == PREAMBLE_V1));
    }
    #[kani::proof]
    #[kani::unwind(10)]
    fn write_version_layout_and_roundtrip() { // @KOBL [C07] the writer appends exactly 'anemo', big-endian version, zero byte (for every version value); reading it back gives the version
        let v = Version::V1;
        let mut s = MemStream::<8> { data: [0xAA; 8], len: 0, pos: 0 };
        let r = block_on(write_version_frame(&mut s, v));
        assert!(r.is_ok() && s.len == 8);
        let code = v.to_u16();
        assert!(s.data == [b'a', b'n', b'e', b'm', b'o', (code >> 8) as u8, (code & 0xff) as u8, 0]);
        assert!(s.data == PREAMBLE_V1);
        let back = block_on(read_version_frame(&mut s));
        assert!(matches!(back, Ok(x) if x == v));
    }
    #[kani::proof]
    #[kani::unwind(10)]
    fn write_version_appends() { // @KOBL [C07] the writer appends after what is already in the stream and writes nothing else
        let pre: [u8; 4] = kani::any();
        let mut data = [0u8; 12];
        data[0] = pre[0]; data[1] = pre[1]; data[2] = pre[2]; data[3] = pre[3];
        let mut s = MemStream::<12> { data, len: 4, pos: 0 };
        let r = block_on(write_version_frame(&mut s, Version::V1));
        assert!(r.is_ok() && s.len == 12);
        assert!(s.data[0..4] == pre && s.data[4..12] == PREAMBLE_V1);
    }
    #[kani::proof]
    fn version_closed_set() { // @KOBL [C07,C06] over all 65536 values: Version::new accepts exactly 1, never panics, and to_u16 inverts it
        let x: u16 = kani::any();
        let r = Version::new(x);
        assert!(r.is_ok() == (x == 1));
        if let Ok(v) = r { assert!(v.to_u16() == x); }
    }
    #[kani::proof]
    fn status_closed_set() { // @KOBL [C07,C06] over all 65536 values: StatusCode::new accepts exactly the eight documented codes, never panics, and to_u16 inverts it
        let x: u16 = kani::any();
        let r = StatusCode::new(x);
        let known = x == 200 || x == 400 || x == 404 || x == 408 || x == 429 || x == 500 || x == 505 || x == 520;
        assert!(r.is_ok() == known);
        if let Ok(s) = r { assert!(s.to_u16() == x); }
    }
    #[kani::proof]
    fn response_header_status_closed_set() { // @KOBL [C07,C06] over all 65536 wire values: a response header decodes iff its status is one of the eight documented codes, to exactly that status, with headers and version unchanged and no extensions; never panics
        let x: u16 = kani::any();
        let h: u8 = kani::any();
        let r = ResponseHeader::from_raw(RawResponseHeader { status: x, headers: HeaderMap(h) }, Version::V1);
        let known = x == 200 || x == 400 || x == 404 || x == 408 || x == 429 || x == 500 || x == 505 || x == 520;
        assert!(r.is_ok() == known);
        if let Ok(hd) = r {
            assert!(hd.status.to_u16() == x && hd.headers == HeaderMap(h) && hd.version == Version::V1 && hd.extensions.entries == 0);
        }
    }
    #[kani::proof]
    fn response_header_encode_roundtrip() { // @KOBL [C07] every status variant is put on the wire as its documented number, with the headers unchanged and the extensions kept aside; decoding that gives the same status back
        let all = [StatusCode::Success, StatusCode::BadRequest, StatusCode::NotFound, StatusCode::RequestTimeout,
                   StatusCode::TooManyRequests, StatusCode::InternalServerError, StatusCode::VersionNotSupported, StatusCode::Unknown];
        let i: usize = kani::any();
        kani::assume(i < 8);
        let h: u8 = kani::any();
        let e: u8 = kani::any();
        let (raw, ext) = RawResponseHeader::from_header(ResponseHeader { status: all[i], version: Version::V1, headers: HeaderMap(h), extensions: Extensions { entries: e } });
        assert!(raw.status == all[i].to_u16() && raw.headers == HeaderMap(h) && ext.entries == e);
        let back = ResponseHeader::from_raw(raw, Version::V1);
        assert!(matches!(back, Ok(hd) if hd.status == all[i]));
    }
    #[kani::proof]
    fn status_variants_roundtrip() { // @KOBL [C07] every status variant encodes to its documented number and decodes back to itself
        let all = [(StatusCode::Success, 200u16), (StatusCode::BadRequest, 400), (StatusCode::NotFound, 404), (StatusCode::RequestTimeout, 408),
                   (StatusCode::TooManyRequests, 429), (StatusCode::InternalServerError, 500), (StatusCode::VersionNotSupported, 505), (StatusCode::Unknown, 520)];
        let i: usize = kani::any();
        kani::assume(i < 8);
        let (s, n) = all[i];
        assert!(s.to_u16() == n);
        assert!(StatusCode::new(n) == Ok(s));
    }
}
'''


def build(ctx):
    C = ctx
    t = PRELUDE
    t += '// ---------- extracted from /repo ----------\n'
    t += '#[repr(u16)]\n' + C.item(TYPES, 'enum Version', extra_derive=['Debug'])
    t += 'impl Version {\n'
    t += C.fn(TYPES, 'impl Version :: fn new', 'Version::new', ['C07', 'C06'], probe=False, rewrites=[('X5', 'crate::Result', 'Result', 1)])
    t += C.fn(TYPES, 'impl Version :: fn to_u16', 'Version::to_u16', ['C07'], probe=False)
    t += '}\n'
    t += C.item(RESP, 'struct InvalidStatusCodeError', extra_derive=['Debug'])
    t += '#[repr(u16)]\n' + C.item(RESP, 'enum StatusCode', extra_derive=['Debug'])
    t += 'impl StatusCode {\n'
    t += C.fn(RESP, 'impl StatusCode :: fn new', 'StatusCode::new', ['C07', 'C06'], probe=False)
    t += C.fn(RESP, 'impl StatusCode :: fn to_u16', 'StatusCode::to_u16', ['C07'], probe=False)
    t += '}\n'
    t += C.item(RESP, 'struct ResponseHeader', extra_derive=['Debug'])
    t += C.item(RESP, 'struct RawResponseHeader')
    t += 'impl ResponseHeader {\n'
    t += C.fn(RESP, 'impl ResponseHeader :: fn from_raw', 'ResponseHeader::from_raw', ['C07', 'C06'], probe=False)
    t += '}\nimpl RawResponseHeader {\n'
    t += C.fn(RESP, 'impl RawResponseHeader :: fn from_header', 'RawResponseHeader::from_header', ['C07'], probe=False)
    t += '}\n'
    t += C.item(WIRE, 'const ANEMO')
    t += C.fn(WIRE, 'fn read_version_frame', 'read_version_frame', ['C07', 'C06'], probe=False)
    t += C.fn(WIRE, 'fn write_version_frame', 'write_version_frame', ['C07'], probe=False)
    t += C.helpers_here()
    t += HARNESS
    return t
