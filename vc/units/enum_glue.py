"""Unit enum_glue (BOUNDED exhaustive enumeration, native execution): small pieces of identity glue run on executable stand-ins, for the
cases where an edit makes the Verus contract undecidable (closures, helper functions).  connection.rs Connection::{try_peer_id, new}:
the identity is read from the FIRST certificate of the chain, for every chain of 1..3 certificates with ids drawn from 3 values."""
import prelude as P

NAME = 'enum_glue'
BACKEND = 'enum'
CONN = 'crates/anemo/src/connection.rs'
COVER = {'peer_id_from_first_certificate': [0]}

PRELUDE = r'''// GENERATED on every run by /verif/vc from /repo's working tree -- do not edit
#![allow(dead_code, unused, non_upper_case_globals)]
pub type Result<T, E = Error> = std::result::Result<T, E>;
#[derive(Debug)]
pub struct Error;
impl Error { pub fn msg() -> Self { Error } }
impl From<rustls::Error> for Error { fn from(_: rustls::Error) -> Self { Error } }
#[derive(Clone, Debug, PartialEq)]
pub struct CertificateDer { pub key: u8, pub well_formed: bool }
pub mod rustls { #[derive(Debug)] pub enum Error { InvalidCertificate } }
pub mod crypto {
    use super::*;
    // stand-in for x509 + pkcs8 parsing: the certificate's public key, or an error for a malformed certificate
    pub fn peer_id_from_certificate(certificate: &CertificateDer) -> std::result::Result<PeerId, rustls::Error> {
        if certificate.well_formed { Ok(PeerId([certificate.key; 32])) } else { Err(rustls::Error::InvalidCertificate) }
    }
}
pub mod quinn {
    use super::*;
    // what the TLS layer reports: the peer's certificate chain, end-entity first, as rustls hands it to quinn (a Box<dyn Any>)
    pub struct Connection { pub chain: Vec<CertificateDer> }
    impl Connection { pub fn peer_identity(&self) -> Option<Box<dyn std::any::Any>> { Some(Box::new(self.chain.clone())) } }
}
pub struct Instant;
impl Instant { pub fn now() -> Instant { Instant } }
pub struct Connection { pub inner: quinn::Connection, pub peer_id: PeerId, pub origin: ConnectionOrigin, pub time_established: Instant }
'''

HARNESS = r'''
pub static mut COVER: [u64; 8] = [0; 8];
pub fn cover(i: usize) { unsafe { COVER[i] += 1; } }
pub struct Chooser { pub path: Vec<(u32, u32)>, pub pos: usize }
impl Chooser {
    pub fn below(&mut self, n: u32) -> u32 { if self.pos == self.path.len() { self.path.push((0, n)); } let c = self.path[self.pos].0; self.pos += 1; c }
    pub fn any_bool(&mut self) -> bool { self.below(2) == 1 }
}
fn run_all(name: &str, f: fn(&mut Chooser)) {
    let mut path: Vec<(u32, u32)> = Vec::new();
    let (mut runs, mut failures, mut first): (u64, u64, Option<(Vec<u32>, String)>) = (0, 0, None);
    loop {
        let mut ch = Chooser { path: path.clone(), pos: 0 };
        let res = std::panic::catch_unwind(std::panic::AssertUnwindSafe(|| f(&mut ch)));
        runs += 1;
        path = ch.path;
        if let Err(e) = res {
            failures += 1;
            if first.is_none() {
                let msg = e.downcast_ref::<String>().cloned().or_else(|| e.downcast_ref::<&str>().map(|s| s.to_string())).unwrap_or_default();
                first = Some((path.iter().map(|c| c.0).collect(), msg));
            }
        }
        while let Some((c, n)) = path.pop() { if c + 1 < n { path.push((c + 1, n)); break; } }
        if path.is_empty() { break; }
    }
    let (p, m) = first.unwrap_or_default();
    let cov = unsafe { let c = COVER; COVER = [0; 8]; c };
    println!("{{\"harness\": \"{}\", \"runs\": {}, \"failures\": {}, \"first_failing_choices\": {:?}, \"message\": {:?}, \"cover\": {:?}}}", name, runs, failures, p, m, cov);
}
pub fn main() {
    let args: Vec<String> = std::env::args().collect();
    if args.len() == 4 && args[1] == "--replay" {
        let choices: Vec<(u32, u32)> = args[3].split(',').filter(|s| !s.is_empty()).map(|s| (s.trim().parse().unwrap(), u32::MAX)).collect();
        let mut ch = Chooser { path: choices, pos: 0 };
        harness::peer_id_from_first_certificate(&mut ch);
        println!("no assertion failed for this choice sequence");
        return;
    }
    std::panic::set_hook(Box::new(|_| {}));
    run_all("peer_id_from_first_certificate", harness::peer_id_from_first_certificate);
}
pub mod harness {
    use super::*;
    pub fn peer_id_from_first_certificate(ch: &mut Chooser) { // @EOBL [C01] @BOUNDED for every certificate chain of 1..3 certificates (keys drawn from 3 values, each well-formed or not): the identity attributed to the connection is the public key of the FIRST certificate (the end-entity whose key signed the handshake); if that one is malformed the connection is refused; never a panic
        let n = 1 + ch.below(3) as usize;
        let mut chain = Vec::new();
        let mut i = 0;
        while i < n { chain.push(CertificateDer { key: 1 + ch.below(3) as u8, well_formed: ch.any_bool() }); i += 1; }
        let first = chain[0].clone();
        if n > 1 && chain[n - 1].key != first.key { cover(0); }
        let r = Connection::new(quinn::Connection { chain }, ConnectionOrigin::Inbound);
        match r {
            Ok(c) => { assert!(first.well_formed, "a connection was established although its end-entity certificate is malformed"); assert!(c.peer_id == PeerId([first.key; 32]), "identity not taken from the end-entity certificate"); }
            Err(_) => assert!(!first.well_formed, "a well-formed end-entity certificate was refused"),
        }
    }
}
'''


def build(ctx):
    C = ctx
    t = PRELUDE
    t += P.peer_types(C).replace('#[derive(Copy, Clone, Hash, PartialEq, Eq, PartialOrd, Ord)]\npub struct PeerId', '#[derive(Copy, Clone, Hash, PartialEq, Eq, PartialOrd, Ord, Debug)]\npub struct PeerId')
    t += 'impl Connection {\n'
    t += C.fn(CONN, 'impl Connection :: fn new', 'Connection::new', ['C01'], probe=False, rewrites=[dict(rule='X5', pattern='std::time::Instant', repl='Instant', optional=True)])
    t += C.fn(CONN, 'impl Connection :: fn try_peer_id', 'Connection::try_peer_id', ['C01'], probe=False)
    t += '}\n'
    t += C.helpers_here()
    t += HARNESS
    return t
