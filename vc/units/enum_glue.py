"""Unit enum_glue (BOUNDED exhaustive enumeration, native execution): small pieces of identity glue run on executable stand-ins, for the
cases where an edit makes the Verus contract undecidable (closures, helper functions).  connection.rs Connection::{try_peer_id, new}:
the identity is read from the FIRST certificate of the chain, for every chain of 1..3 certificates with ids drawn from 3 values."""
import prelude as P

NAME = 'enum_glue'
BACKEND = 'enum'
CONN = 'crates/anemo/src/connection.rs'
COVER = {'peer_id_from_first_certificate': [0], 'pinned_verifier': [0], 'allow_list_layer': [0], 'stacked_allow_lists': [0], 'gate_sequence': [0]}

PRELUDE = r'''// GENERATED on every run by /verif/vc from /repo's working tree -- do not edit
#![allow(dead_code, unused, non_upper_case_globals)]
pub type Result<T, E = Error> = std::result::Result<T, E>;
#[derive(Debug)]
pub struct Error;
impl Error { pub fn msg() -> Self { Error } }
impl From<rustls::Error> for Error { fn from(_: rustls::Error) -> Self { Error } }
#[derive(Clone, Debug, PartialEq)]
pub struct CertificateDer { pub key: u8, pub well_formed: bool }
pub mod rustls {
    use super::*;
    #[derive(Debug)] pub struct OtherError(pub Arc<AsStdError>);
    #[derive(Debug)] pub enum CertificateError { BadEncoding, BadSignature, Other(OtherError) }
    #[derive(Debug)] pub enum Error { InvalidCertificate(CertificateError), UnsupportedNameType, General(String) }
    #[derive(Debug, PartialEq, Clone, Copy)] pub enum SignatureScheme { ED25519, ECDSA_NISTP256_SHA256, RSA_PSS_SHA256 }
    pub struct DigitallySignedStruct { pub scheme: SignatureScheme, pub valid_for_cert_key: bool }
    pub mod client { pub mod danger { pub use super::super::super::HandshakeSignatureValid; } }
    pub mod crypto {
        use super::super::*;
        // rustls' check of the handshake signature: succeeds iff the signature was made with the private key of the certificate's public key
        // AND the scheme is one of the supported algorithms
        fn check(dss: &super::DigitallySignedStruct, algs: &WebPkiSupportedAlgorithms) -> std::result::Result<HandshakeSignatureValid, super::Error> {
            unsafe { SIG_CHECKS += 1; }
            if dss.valid_for_cert_key && algs.schemes.contains(&dss.scheme) { Ok(HandshakeSignatureValid(())) } else { Err(super::Error::InvalidCertificate(super::CertificateError::BadSignature)) }
        }
        pub fn verify_tls12_signature(_m: &[u8], _c: &CertificateDer, dss: &super::DigitallySignedStruct, algs: &WebPkiSupportedAlgorithms) -> std::result::Result<HandshakeSignatureValid, super::Error> { check(dss, algs) }
        pub fn verify_tls13_signature(_m: &[u8], _c: &CertificateDer, dss: &super::DigitallySignedStruct, algs: &WebPkiSupportedAlgorithms) -> std::result::Result<HandshakeSignatureValid, super::Error> { check(dss, algs) }
    }
}
pub static mut SIG_CHECKS: u32 = 0;
use std::sync::Arc;
#[derive(Debug)] pub struct AsStdError(pub Error);
impl From<Error> for AsStdError { fn from(e: Error) -> Self { AsStdError(e) } }
#[derive(Debug)] pub struct HandshakeSignatureValid(());
impl HandshakeSignatureValid { pub fn assertion() -> Self { HandshakeSignatureValid(()) } }
#[derive(Debug)] pub struct ServerCertVerified(());
impl ServerCertVerified { pub fn assertion() -> Self { ServerCertVerified(()) } }
pub struct WebPkiSupportedAlgorithms { pub schemes: &'static [rustls::SignatureScheme] }
pub static SUPPORTED_ALGORITHMS: WebPkiSupportedAlgorithms = WebPkiSupportedAlgorithms { schemes: &[rustls::SignatureScheme::ED25519] };   // as the crate's static (checked textually in unit crypto)
pub struct ServerName;
pub struct UnixTime;
#[derive(Clone, Debug)]
pub struct CertVerifier { pub server_names: Vec<String>, pub base_accepts: bool }
pub trait ServerCertVerifier {
    fn verify_server_cert(&self, end_entity: &CertificateDer, intermediates: &[CertificateDer], server_name: &ServerName, ocsp_response: &[u8], now: UnixTime) -> std::result::Result<ServerCertVerified, rustls::Error>;
    fn verify_tls12_signature(&self, message: &[u8], cert: &CertificateDer, dss: &rustls::DigitallySignedStruct) -> std::result::Result<HandshakeSignatureValid, rustls::Error>;
    fn verify_tls13_signature(&self, message: &[u8], cert: &CertificateDer, dss: &rustls::DigitallySignedStruct) -> std::result::Result<HandshakeSignatureValid, rustls::Error>;
}
// the base verifier's certificate validation (self-signed, Ed25519, name): NOT under test here, answers as the harness says
impl ServerCertVerifier for CertVerifier {
    fn verify_server_cert(&self, _e: &CertificateDer, _i: &[CertificateDer], _n: &ServerName, _o: &[u8], _t: UnixTime) -> std::result::Result<ServerCertVerified, rustls::Error> {
        if self.base_accepts { Ok(ServerCertVerified(())) } else { Err(rustls::Error::UnsupportedNameType) }
    }
    fn verify_tls12_signature(&self, _m: &[u8], _c: &CertificateDer, _d: &rustls::DigitallySignedStruct) -> std::result::Result<HandshakeSignatureValid, rustls::Error> { unreachable!() }
    fn verify_tls13_signature(&self, _m: &[u8], _c: &CertificateDer, _d: &rustls::DigitallySignedStruct) -> std::result::Result<HandshakeSignatureValid, rustls::Error> { unreachable!() }
}
pub use crypto::peer_id_from_certificate;
// ---- stand-ins for the authorization layer (anemo-tower/src/auth)
pub mod anemo { pub use super::PeerId; pub mod types { pub mod response { pub use super::super::super::{IntoResponse, StatusCode}; } } }
#[derive(Debug, PartialEq, Clone)] pub struct Bytes(pub u8);
#[derive(Default)]
pub struct Extensions { pub items: Vec<(std::any::TypeId, Box<dyn std::any::Any>)> }
impl Extensions {
    pub fn get<X: 'static>(&self) -> Option<&X> { self.items.iter().find(|(t, _)| *t == std::any::TypeId::of::<X>()).and_then(|(_, b)| b.downcast_ref::<X>()) }
    pub fn insert<X: 'static>(&mut self, v: X) -> Option<X> { self.items.retain(|(t, _)| *t != std::any::TypeId::of::<X>()); self.items.push((std::any::TypeId::of::<X>(), Box::new(v))); None }
}
pub struct Request<T> { pub sender: Option<PeerId>, pub body: T, pub ext: Extensions }
impl<T> Request<T> {
    pub fn peer_id(&self) -> Option<&PeerId> { self.sender.as_ref() }
    pub fn extensions(&self) -> &Extensions { &self.ext }
    pub fn extensions_mut(&mut self) -> &mut Extensions { &mut self.ext }
}
impl<S: Service<Request<Bytes>>, A: AuthorizeRequest> Service<Request<Bytes>> for RequireAuthorization<S, A> {
    type Future = ResponseFuture<S::Future>;
    fn call(&mut self, req: Request<Bytes>) -> Self::Future { RequireAuthorization::call(self, req) }
}
#[derive(Debug, PartialEq)] pub struct Response<T> { pub status: StatusCode, pub body: T }
pub trait IntoResponse { fn into_response(self) -> Response<Bytes>; }
impl IntoResponse for StatusCode { fn into_response(self) -> Response<Bytes> { Response { status: self, body: Bytes(0) } } }
pub trait AuthorizeRequest { fn authorize(&self, request: &mut Request<Bytes>) -> std::result::Result<(), Response<Bytes>>; }
pub trait Service<Req> { type Future; fn call(&mut self, req: Req) -> Self::Future; }
pub struct Counting { pub calls: u32, pub last_sender: Option<PeerId> }
impl Service<Request<Bytes>> for Counting { type Future = u32; fn call(&mut self, req: Request<Bytes>) -> u32 { self.calls += 1; self.last_sender = req.sender; self.calls } }
pub mod crypto {
    use super::*;
    // stand-in for x509 + pkcs8 parsing: the certificate's public key, or an error for a malformed certificate
    pub fn peer_id_from_certificate(certificate: &CertificateDer) -> std::result::Result<PeerId, rustls::Error> {
        if certificate.well_formed { Ok(PeerId([certificate.key; 32])) } else { Err(rustls::Error::InvalidCertificate(rustls::CertificateError::BadEncoding)) }
    }
}
pub mod quinn {
    use super::*;
    // what the TLS layer reports: the peer's certificate chain, end-entity first, as rustls hands it to quinn (a Box<dyn Any>)
    pub struct Connection { pub chain: Vec<CertificateDer> }
    impl Connection { pub fn peer_identity(&self) -> Option<Box<dyn std::any::Any>> { Some(Box::new(self.chain.clone())) } }
}
pub struct Instant;
impl Instant { pub fn now() -> Instant { Instant } }
pub struct Connection { pub inner: quinn::Connection, pub peer_id: PeerId, pub origin: ConnectionOrigin, pub time_established: Instant }
'''

HARNESS = r'''
pub static mut COVER: [u64; 8] = [0; 8];
pub fn cover(i: usize) { unsafe { COVER[i] += 1; } }
pub struct Chooser { pub path: Vec<(u32, u32)>, pub pos: usize }
impl Chooser {
    pub fn below(&mut self, n: u32) -> u32 { if self.pos == self.path.len() { self.path.push((0, n)); } let c = self.path[self.pos].0; self.pos += 1; c }
    pub fn any_bool(&mut self) -> bool { self.below(2) == 1 }
}
fn run_all(name: &str, f: fn(&mut Chooser)) {
    let mut path: Vec<(u32, u32)> = Vec::new();
    let (mut runs, mut failures, mut first): (u64, u64, Option<(Vec<u32>, String)>) = (0, 0, None);
    loop {
        let mut ch = Chooser { path: path.clone(), pos: 0 };
        let res = std::panic::catch_unwind(std::panic::AssertUnwindSafe(|| f(&mut ch)));
        runs += 1;
        path = ch.path;
        if let Err(e) = res {
            failures += 1;
            if first.is_none() {
                let msg = e.downcast_ref::<String>().cloned().or_else(|| e.downcast_ref::<&str>().map(|s| s.to_string())).unwrap_or_default();
                first = Some((path.iter().map(|c| c.0).collect(), msg));
            }
        }
        while let Some((c, n)) = path.pop() { if c + 1 < n { path.push((c + 1, n)); break; } }
        if path.is_empty() { break; }
    }
    let (p, m) = first.unwrap_or_default();
    let cov = unsafe { let c = COVER; COVER = [0; 8]; c };
    println!("{{\"harness\": \"{}\", \"runs\": {}, \"failures\": {}, \"first_failing_choices\": {:?}, \"message\": {:?}, \"cover\": {:?}}}", name, runs, failures, p, m, cov);
}
pub fn main() {
    let args: Vec<String> = std::env::args().collect();
    if args.len() == 4 && args[1] == "--replay" {
        let choices: Vec<(u32, u32)> = args[3].split(',').filter(|s| !s.is_empty()).map(|s| (s.trim().parse().unwrap(), u32::MAX)).collect();
        let mut ch = Chooser { path: choices, pos: 0 };
        match args[2].as_str() { "pinned_verifier" => harness::pinned_verifier(&mut ch), "allow_list_layer" => harness::allow_list_layer(&mut ch), "stacked_allow_lists" => harness::stacked_allow_lists(&mut ch), "gate_sequence" => harness::gate_sequence(&mut ch), _ => harness::peer_id_from_first_certificate(&mut ch) }
        println!("no assertion failed for this choice sequence");
        return;
    }
    std::panic::set_hook(Box::new(|_| {}));
    run_all("peer_id_from_first_certificate", harness::peer_id_from_first_certificate);
    run_all("pinned_verifier", harness::pinned_verifier);
    run_all("allow_list_layer", harness::allow_list_layer);
    run_all("stacked_allow_lists", harness::stacked_allow_lists);
    run_all("gate_sequence", harness::gate_sequence);
}
pub mod harness {
    use super::*;
    pub fn pinned_verifier(ch: &mut Chooser) { // @EOBL [C01,C03] @BOUNDED the pinning verifier on every combination of (certificate key = expected / other / malformed certificate) x (ordinary validation accepts / rejects) x (handshake signature valid for the certificate's key or not) x (signature scheme Ed25519 / ECDSA / RSA) x (TLS 1.2 / 1.3 callback): the certificate is accepted iff its key IS the expected identity and ordinary validation accepts it; the handshake signature is accepted iff rustls' check accepts it for Ed25519 -- never unconditionally
        let expected = PeerId([1; 32]);
        let v = ExpectedCertVerifier(CertVerifier { server_names: vec!["n".to_owned()], base_accepts: ch.any_bool() }, expected);
        let kind = ch.below(3);
        let cert = CertificateDer { key: if kind == 0 { 1 } else { 2 }, well_formed: kind != 2 };
        let r = v.verify_server_cert(&cert, &[], &ServerName, &[], UnixTime);
        assert!(r.is_ok() == (kind == 0 && v.0.base_accepts), "pinned dial accepted / refused the wrong certificate");
        let schemes = [rustls::SignatureScheme::ED25519, rustls::SignatureScheme::ECDSA_NISTP256_SHA256, rustls::SignatureScheme::RSA_PSS_SHA256];
        let dss = rustls::DigitallySignedStruct { scheme: schemes[ch.below(3) as usize], valid_for_cert_key: ch.any_bool() };
        let want = dss.valid_for_cert_key && dss.scheme == rustls::SignatureScheme::ED25519;
        let s = if ch.any_bool() { cover(0); v.verify_tls13_signature(&[1, 2, 3], &cert, &dss) } else { v.verify_tls12_signature(&[1, 2, 3], &cert, &dss) };
        assert!(s.is_ok() == want, "handshake signature accepted without proof of the private key (or a valid one refused)");
    }
    pub fn stacked_allow_lists(ch: &mut Chooser) { // @EOBL [C20] @BOUNDED two allow-list layers stacked on one request path, every pair of lists over 2 peers (16 pairs) x sender absent / peer 1 / peer 2 / peer 3: the innermost service is invoked iff the sender is in BOTH lists (each authorizer accepts exactly the senders in ITS list, whatever an outer layer decided)
        let (p1, p2, p3) = (PeerId([1; 32]), PeerId([2; 32]), PeerId([3; 32]));
        let (mut outer, mut inner) = (Vec::new(), Vec::new());
        if ch.any_bool() { outer.push(p1); }
        if ch.any_bool() { outer.push(p2); }
        if ch.any_bool() { inner.push(p1); }
        if ch.any_bool() { inner.push(p2); }
        let s = ch.below(4);
        let sender = if s == 0 { None } else if s == 1 { Some(p1) } else if s == 2 { Some(p2) } else { Some(p3) };
        let both = match sender { Some(p) => outer.contains(&p) && inner.contains(&p), None => false };
        if let Some(p) = sender { if outer.contains(&p) && !inner.contains(&p) { cover(0); } }
        let mut svc = RequireAuthorization::new(RequireAuthorization::new(Counting { calls: 0, last_sender: None }, AllowedPeers::new(inner)), AllowedPeers::new(outer));
        let _fut = svc.call(Request { sender, body: Bytes(9), ext: Extensions::default() });
        assert!((svc.inner.inner.calls == 1) == both && svc.inner.inner.calls <= 1, "the innermost service was invoked for a sender that is not in both allow-lists (or not invoked for one that is)");
    }
    // an authorizer whose verdict depends on the request itself (as user-supplied closures do): accepts iff the body says so
    pub struct FlagAuth;
    impl AuthorizeRequest for FlagAuth {
        fn authorize(&self, request: &mut Request<Bytes>) -> std::result::Result<(), Response<Bytes>> { if request.body.0 == 1 { Ok(()) } else { Err(Response { status: StatusCode::BadRequest, body: Bytes(77) }) } }
    }
    pub fn gate_sequence(ch: &mut Chooser) { // @EOBL [C20] @BOUNDED every sequence of 3 requests (sender absent / peer 1 / peer 2; acceptable to the authorizer or not) through ONE instance of the layered service, with an authorizer whose verdict depends on the request: for every request of the sequence the wrapped service is invoked iff the authorizer accepted THAT request, and a refusal carries exactly the authorizer's response -- whatever was decided for earlier requests
        let (p1, p2) = (PeerId([1; 32]), PeerId([2; 32]));
        let mut svc = RequireAuthorization::new(Counting { calls: 0, last_sender: None }, FlagAuth);
        let mut expected_calls = 0;
        let mut prev: Option<(Option<PeerId>, bool)> = None;
        let mut i = 0;
        while i < 3 {
            let s = ch.below(3);
            let sender = if s == 0 { None } else if s == 1 { Some(p1) } else { Some(p2) };
            let ok = ch.any_bool();
            if let Some((ps, pok)) = prev { if ps == sender && sender.is_some() && pok && !ok { cover(0); } }
            prev = Some((sender, ok));
            let fut = svc.call(Request { sender, body: Bytes(if ok { 1 } else { 0 }), ext: Extensions::default() });
            if ok { expected_calls += 1; }
            assert!(svc.inner.calls == expected_calls, "the wrapped service was invoked for a refused request (or not invoked for an accepted one)");
            match fut.kind {
                Kind::Future { .. } => assert!(ok, "a refused request got the service's future"),
                Kind::Error { response } => { assert!(!ok); assert!(response == Some(Response { status: StatusCode::BadRequest, body: Bytes(77) }), "the refusal does not carry exactly the authorizer's response"); }
            }
            i += 1;
        }
    }
    pub fn allow_list_layer(ch: &mut Chooser) { // @EOBL [C20] @BOUNDED the allow-list authorizer behind the authorization layer for every allow-list over 2 peers (4 lists) x sender absent / peer 1 / peer 2 / peer 3: the wrapped service is invoked (once, with that request) iff the sender is listed; NotFound for other senders, InternalServerError without sender identity; a refusal never reaches the service
        let (p1, p2, p3) = (PeerId([1; 32]), PeerId([2; 32]), PeerId([3; 32]));
        let mut list = Vec::new();
        if ch.any_bool() { list.push(p1); }
        if ch.any_bool() { list.push(p2); }
        let s = ch.below(4);
        let sender = if s == 0 { None } else if s == 1 { Some(p1) } else if s == 2 { Some(p2) } else { Some(p3) };
        let listed = match sender { Some(p) => list.contains(&p), None => false };
        if list.is_empty() && sender.is_none() { cover(0); }
        let mut svc = RequireAuthorization::new(Counting { calls: 0, last_sender: None }, AllowedPeers::new(list));
        let fut = svc.call(Request { sender, body: Bytes(9), ext: Extensions::default() });
        match fut.kind {
            Kind::Future { future } => { assert!(listed, "an unlisted or anonymous request reached the service"); assert!(future == 1 && svc.inner.calls == 1 && svc.inner.last_sender == sender); }
            Kind::Error { response } => {
                assert!(!listed, "a listed sender was refused");
                assert!(svc.inner.calls == 0, "a refused request invoked the service");
                let r = response.expect("refusal carries the authorizer's response");
                assert!(r.status == if sender.is_none() { StatusCode::InternalServerError } else { StatusCode::NotFound }, "wrong status for the refusal");
            }
        }
    }
    pub fn peer_id_from_first_certificate(ch: &mut Chooser) { // @EOBL [C01,C03] @BOUNDED for every certificate chain of 1..3 certificates (keys drawn from 3 values, each well-formed or not): the identity attributed to the connection is the public key of the FIRST certificate (the end-entity whose key signed the handshake); if that one is malformed the connection is refused; never a panic
        let n = 1 + ch.below(3) as usize;
        let mut chain = Vec::new();
        let mut i = 0;
        while i < n { chain.push(CertificateDer { key: 1 + ch.below(3) as u8, well_formed: ch.any_bool() }); i += 1; }
        let first = chain[0].clone();
        if n > 1 && chain[n - 1].key != first.key { cover(0); }
        let r = Connection::new(quinn::Connection { chain }, ConnectionOrigin::Inbound);
        match r {
            Ok(c) => { assert!(first.well_formed, "a connection was established although its end-entity certificate is malformed"); assert!(c.peer_id == PeerId([first.key; 32]), "identity not taken from the end-entity certificate"); }
            Err(_) => assert!(!first.well_formed, "a well-formed end-entity certificate was refused"),
        }
    }
}
'''


def build(ctx):
    C = ctx
    C.helper_rewrites = [dict(rule='X5', pattern='anyhow::Error', repl='Error'), dict(rule='X5', pattern=r"\bCertificateDer<'\w+>", repl='CertificateDer', regex=True)] if True else [dict(rule='X5', pattern='anyhow::Error', repl='Error')]
    t = PRELUDE
    t += P.peer_types(C).replace('#[derive(Copy, Clone, Hash, PartialEq, Eq, PartialOrd, Ord)]\npub struct PeerId', '#[derive(Copy, Clone, Hash, PartialEq, Eq, PartialOrd, Ord, Debug)]\npub struct PeerId')
    t += 'impl Connection {\n'
    t += C.fn(CONN, 'impl Connection :: fn new', 'Connection::new', ['C01'], probe=False, rewrites=[dict(rule='X5', pattern='std::time::Instant', repl='Instant', optional=True)])
    t += C.fn(CONN, 'impl Connection :: fn try_peer_id', 'Connection::try_peer_id', ['C01'], probe=False)
    t += '}\n'
    CR = 'crates/anemo/src/crypto.rs'
    rw = [dict(rule='X5', pattern="CertificateDer<'_>", repl='CertificateDer', optional=True)]
    t += C.item(CR, 'struct ExpectedCertVerifier', derives=False)
    t += 'impl ServerCertVerifier for ExpectedCertVerifier {\n'
    for f in ('verify_server_cert', 'verify_tls12_signature', 'verify_tls13_signature'):
        t += C.fn(CR, 'impl ServerCertVerifier for ExpectedCertVerifier :: fn ' + f, 'ExpectedCertVerifier::' + f, ['C01', 'C03'], probe=False, pub=False, rewrites=rw)
    t += '}\n'
    A = 'crates/anemo-tower/src/auth/'
    t += '#[repr(u16)]\n' + C.item('crates/anemo/src/types/response.rs', 'enum StatusCode', extra_derive=['Debug'])
    t += C.item(A + 'mod.rs', 'struct AllowedPeers', derives=False)
    t += 'impl AllowedPeers {\n' + C.fn(A + 'mod.rs', 'impl AllowedPeers :: fn new', 'AllowedPeers::new', ['C20'], probe=False) + '}\n'
    t += 'impl AuthorizeRequest for AllowedPeers {\n' + C.fn(A + 'mod.rs', 'impl AuthorizeRequest for AllowedPeers :: fn authorize', 'AllowedPeers::authorize', ['C20'], probe=False, pub=False) + '}\n'
    t += C.item(A + 'service.rs', 'struct RequireAuthorization', derives=False)
    t += C.item(A + 'future.rs', 'pin_project! :: struct ResponseFuture')
    t += C.item(A + 'future.rs', 'pin_project! :: enum Kind')
    t += 'impl<F> ResponseFuture<F> {\n'
    t += C.fn(A + 'future.rs', 'impl <F> ResponseFuture<F> :: fn future', 'ResponseFuture::future', ['C20'], probe=False)
    t += C.fn(A + 'future.rs', 'impl <F> ResponseFuture<F> :: fn invalid_auth', 'ResponseFuture::invalid_auth', ['C20'], probe=False)
    t += '}\nimpl<S, A> RequireAuthorization<S, A> {\n'
    t += C.fn(A + 'service.rs', 'impl <S, A> RequireAuthorization<S, A> :: fn new', 'RequireAuthorization::new', ['C20'], probe=False)
    t += '}\nimpl<S: Service<Request<Bytes>>, A: AuthorizeRequest> RequireAuthorization<S, A> {\n'
    t += C.fn(A + 'service.rs', 'impl <S, A> Service<Request<Bytes>> for RequireAuthorization<S, A> .* :: fn call', 'RequireAuthorization::call', ['C20'], probe=False,
              sig_rewrites=[('Self::Future', 'ResponseFuture<S::Future>')])
    t += '}\n'
    t += C.helpers_here()
    t += HARNESS
    return t
