#!/usr/bin/env python3
"""seed_matrix.py [seed-dir-prefix ...]: applies each confirmed seeded change in /verif/seeded to /repo (git apply), runs the quick
check of the property it breaks, records the outcome, and reverts (git checkout -- .).  Writes /verif/seeded/MATRIX.json."""
import glob, json, os, re, subprocess, sys, time
os.chdir(os.path.dirname(os.path.dirname(os.path.abspath(__file__))))
REPO = os.environ.get('MATRIX_REPO', '/repo')
ENV = dict(os.environ, VERIF_REPO=REPO)
sel = sys.argv[1:]
out = {}
try:
    out = json.load(open('seeded/MATRIX.json'))
except Exception:
    pass
assert subprocess.run('git -C %s status --porcelain' % REPO, shell=True, capture_output=True, text=True).stdout.strip() == '', REPO + ' not clean'
for d in sorted(glob.glob('seeded/C*-*')):
    name = os.path.basename(d)
    if sel and not any(name.startswith(s) for s in sel):
        continue
    prop = name.split('-')[0]
    p = subprocess.run(['git', '-C', REPO, 'apply', os.path.abspath(d + '/patch.diff')], capture_output=True, text=True)
    if p.returncode != 0:
        out[name] = dict(outcome='patch does not apply', detail=p.stderr[-300:]); continue
    t0 = time.time()
    try:
        r = subprocess.run(['./check', prop], capture_output=True, text=True, timeout=1500, env=ENV)
        txt = r.stdout
        viol = re.findall(r'^VIOLATION property=\S+ replay=(\S+)(.*)$', txt, re.M)
        failed = re.findall(r'failed obligation (\S+):', txt)
        und = re.findall(r'^UNDECIDED .*?reason=(.*)$', txt, re.M)
        outcome = 'VIOLATION' if r.returncode == 1 else 'undecided' if r.returncode == 2 else 'MISSED' if r.returncode == 0 else 'error'
        out[name] = dict(property=prop, outcome=outcome, rc=r.returncode, failed_obligations=failed[:6],
                         replayed_concrete_input=any(s.strip() == '' for (_, s) in viol), undecided_reason=[u[:200] for u in und[:2]],
                         wall_s=round(time.time() - t0, 1))
    finally:
        subprocess.run('git -C %s checkout -- . && git -C %s clean -fdq crates' % (REPO, REPO), shell=True)
    print(name, out[name]['outcome'], out[name].get('failed_obligations'), out[name].get('undecided_reason'))
    json.dump(out, open('seeded/MATRIX.json', 'w'), indent=1, sort_keys=True)
