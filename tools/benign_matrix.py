#!/usr/bin/env python3
"""benign_matrix.py <dir-with-k/patch.diff> ...: applies each behaviour-preserving refactoring to /repo, runs EVERY claimed check (quick),
and records the exit codes.  A 1 (VIOLATION) is a false alarm."""
import glob, json, os, re, subprocess, sys
os.chdir(os.path.dirname(os.path.dirname(os.path.abspath(__file__))))
REPO = os.environ.get('MATRIX_REPO', '/repo')
ENV = dict(os.environ, VERIF_REPO=REPO)
sys.path.insert(0, 'vc'); sys.path.insert(0, 'vc/units')
import registry
assert subprocess.run('git -C %s status --porcelain' % REPO, shell=True, capture_output=True, text=True).stdout.strip() == '', REPO + ' not clean'
out = {}
try:
    out = json.load(open('seeded/BENIGN.json'))
except Exception:
    pass
for base in sys.argv[1:]:
    for d in sorted(glob.glob(base + '/*/patch.diff')):
        name = os.path.basename(base.rstrip('/')) + '/' + os.path.basename(os.path.dirname(d))
        p = subprocess.run(['git', '-C', REPO, 'apply', os.path.abspath(d)], capture_output=True, text=True)
        if p.returncode != 0:
            out[name] = dict(error='patch does not apply'); continue
        res = {}
        try:
            for prop in sorted(registry.PROPERTIES):
                r = subprocess.run(['./check', prop], capture_output=True, text=True, timeout=1500, env=ENV)
                res[prop] = r.returncode
                if r.returncode == 1:
                    res[prop + '_detail'] = re.findall(r'failed obligation (\S+):', r.stdout)[:4]
                if r.returncode == 2:
                    res[prop + '_detail'] = [u[:160] for u in re.findall(r'^UNDECIDED .*?reason=(.*)$', r.stdout, re.M)[:2]]
        finally:
            subprocess.run('git -C %s checkout -- . && git -C %s clean -fdq crates' % (REPO, REPO), shell=True)
        out[name] = res
        print(name, {k: v for k, v in res.items() if not k.endswith('_detail')}, {k: v for k, v in res.items() if k.endswith('_detail')})
        json.dump(out, open('seeded/BENIGN.json', 'w'), indent=1, sort_keys=True)
