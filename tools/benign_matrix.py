#!/usr/bin/env python3
"""benign_matrix.py <dir-with-k/patch.diff> ...: applies each behaviour-preserving refactoring to /repo, runs EVERY claimed check (quick),
and records the exit codes.  A 1 (VIOLATION) is a false alarm."""
import glob, json, os, re, subprocess, sys
os.chdir(os.path.dirname(os.path.dirname(os.path.abspath(__file__))))
REPO = os.environ.get('MATRIX_REPO', '/repo')
ENV = dict(os.environ, VERIF_REPO=REPO)
sys.path.insert(0, 'vc'); sys.path.insert(0, 'vc/units')
import registry
# BENIGN_TOUCHED=1: a refactoring is run only against the properties that have a function under contract (or an extracted item) in a file it touches -- what
# the matrix measures is whether CONTRACTS survive behaviour-preserving edits; the other properties are recorded as 'skipped'
TOUCHED = os.environ.get('BENIGN_TOUCHED') == '1'
FILES = {}
if TOUCHED:
    for prop in registry.PROPERTIES:
        try:
            ev = json.load(open('evidence/%s.json' % prop))
            FILES[prop] = {f.get('file') for f in ev['coverage'].get('functions_under_contract', []) if f.get('file')}
        except Exception:
            FILES[prop] = None
assert subprocess.run('git -C %s status --porcelain' % REPO, shell=True, capture_output=True, text=True).stdout.strip() == '', REPO + ' not clean'
out = {}
try:
    out = json.load(open('seeded/BENIGN.json'))
except Exception:
    pass
for base in sys.argv[1:]:
    for d in sorted(glob.glob(base + '/*/patch.diff')):
        name = os.path.basename(base.rstrip('/')) + '/' + os.path.basename(os.path.dirname(d))
        p = subprocess.run(['git', '-C', REPO, 'apply', os.path.abspath(d)], capture_output=True, text=True)
        if p.returncode != 0:
            out[name] = dict(error='patch does not apply'); continue
        res = {}
        try:
            touched = set(re.findall(r'^\+\+\+ b/(\S+)', open(d).read(), re.M))
            for prop in sorted(registry.PROPERTIES):
                if TOUCHED and FILES.get(prop) is not None and not (FILES[prop] & touched):
                    res[prop] = 'skipped'
                    continue
                r = subprocess.run(['./check', prop], capture_output=True, text=True, timeout=1500, env=ENV)
                res[prop] = r.returncode
                if r.returncode == 1:
                    res[prop + '_detail'] = re.findall(r'failed obligation (\S+):', r.stdout)[:4]
                if r.returncode == 2:
                    res[prop + '_detail'] = [u[:160] for u in re.findall(r'^UNDECIDED .*?reason=(.*)$', r.stdout, re.M)[:2]]
        finally:
            subprocess.run('git -C %s checkout -- . && git -C %s clean -fdq crates' % (REPO, REPO), shell=True)
        out[name] = res
        print(name, {k: v for k, v in res.items() if not k.endswith('_detail')}, {k: v for k, v in res.items() if k.endswith('_detail')})
        json.dump(out, open('seeded/BENIGN.json', 'w'), indent=1, sort_keys=True)
