#!/usr/bin/env python3
"""evidence_sane.py: every committed evidence file must be the record of a run on the UNCHANGED tree (all obligations discharged or listed as
known findings, no violation, nothing undecided).  Run before committing (evidence is rewritten by every ./check, including runs on seeded trees)."""
import glob, json, subprocess, sys
bad = 0
if subprocess.run(['git', '-C', '/repo', 'status', '--porcelain'], capture_output=True, text=True).stdout.strip():
    print('WARNING: /repo has uncommitted changes'); bad += 1
for f in sorted(glob.glob('/verif/evidence/*.json')):
    e = json.load(open(f)); c = e['coverage']
    known = len(c.get('known_finding_obligations') or [])
    ok = (c['discharged'] == c['obligations'] or c['discharged'] + known == c['obligations']) and not e.get('violations') and c.get('status') in ('held', 'held-with-known-finding', None) and not c.get('undecided_reasons')
    if [v for v in (e.get('violations') or []) if not v.get('known_finding')]:
        ok = False
    print('%s obligations=%d discharged=%d known=%d status=%s violations=%d %s' % (e['property_id'], c['obligations'], c['discharged'], known, c.get('status'), len(e.get('violations') or []), 'ok' if ok else 'NOT A CLEAN-TREE RECORD'))
    bad += 0 if ok else 1
sys.exit(1 if bad else 0)
