#!/usr/bin/env python3
"""confirm_seed.py <prop> <k> '<demo cmd>' [name]
Confirms a seeded change in its scratch worktree /tmp/seed-<prop>: (1) with patch: suite passes; (2) with patch + demo: demo
fails; (3) demo without patch passes.  On success stores it under /verif/seeded/<prop>-<name>/ (patch.diff, demo.diff, meta.json)."""
import json, os, shutil, subprocess, sys, time
prop, k, demo_cmd = sys.argv[1], sys.argv[2], sys.argv[3]
name = sys.argv[4] if len(sys.argv) > 4 else k
wt = os.environ.get('SEED_WT', '/tmp/seed-%s' % prop)
src = os.environ.get('SEED_SRC', '/tmp/seed-%s-out' % prop) + '/' + k

def sh(cmd, check=False):
    p = subprocess.run(cmd, shell=True, cwd=wt, capture_output=True, text=True)
    return p.returncode, (p.stdout + p.stderr)

def clean():
    sh('git checkout -- . && git clean -fdq -e target -e Cargo.lock')

clean()
log = {}
rc, out = sh('git apply %s/patch.diff' % src); assert rc == 0, out
rc, out = sh('cargo test --workspace --no-fail-fast --offline -j 8 2>&1 | grep -E "^test result|FAILED|failed" ')
suite_ok = 'FAILED' not in out and 'failed;' in out and all(' 0 failed' in l for l in out.split('\n') if l.startswith('test result'))
if not suite_ok:  # timing-sensitive tests: one retry
    rc, out = sh('cargo test --workspace --no-fail-fast --offline -j 8 2>&1 | grep -E "^test result|FAILED|failed" ')
    suite_ok = all(' 0 failed' in l for l in out.split('\n') if l.startswith('test result')) and 'test result' in out
log['suite_with_patch'] = out[-1500:]
rc, out2 = sh('git apply %s/demo.diff' % src); assert rc == 0, out2
rc_with, out_with = sh(demo_cmd + ' 2>&1 | tail -30')
fails_with = ('FAILED' in out_with or 'panicked' in out_with or 'error' in out_with.lower()) and 'test result: ok' not in out_with.split('FAILED')[0][-1:]
rc, _ = sh('git apply -R %s/patch.diff' % src); assert rc == 0
rc_without, out_without = sh(demo_cmd + ' 2>&1 | tail -30')
passes_without = 'test result: ok' in out_without and 'FAILED' not in out_without
log['demo_with_patch'] = out_with[-1500:]
log['demo_without_patch'] = out_without[-1500:]
clean()
ok = suite_ok and ('FAILED' in out_with) and passes_without
print(json.dumps(dict(prop=prop, k=k, suite_ok=suite_ok, demo_fails_with_patch='FAILED' in out_with, demo_passes_without=passes_without, confirmed=ok), indent=1))
if ok:
    dst = '/verif/seeded/%s-%s' % (prop, name)
    os.makedirs(dst, exist_ok=True)
    shutil.copy(src + '/patch.diff', dst + '/patch.diff')
    shutil.copy(src + '/demo.diff', dst + '/demo.diff')
    if os.path.exists(src + '/notes.md'):
        shutil.copy(src + '/notes.md', dst + '/notes.md')
    meta = dict(property=prop, source='independent sub-agent given only the property text and a scratch worktree', demo_cmd=demo_cmd,
                confirmed=dict(suite_passes_with_patch=True, demo_fails_with_patch=True, demo_passes_without_patch=True, by='tools/confirm_seed.py in /tmp/seed-%s' % prop,
                               at=time.strftime('%Y-%m-%d %H:%M:%S')), logs=log)
    json.dump(meta, open(dst + '/meta.json', 'w'), indent=1)
else:
    print(json.dumps(log, indent=1)[:4000])
