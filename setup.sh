#!/bin/sh
# offline setup: warms the verifier caches and builds the replay crate against /repo (all from files on disk)
cd "$(dirname "$0")"
export CARGO_NET_OFFLINE=true
mkdir -p .cache evidence replays
python3 vc/gen_manifest.py >/dev/null 2>&1 || true
python3 - <<'PY'
import sys
sys.path.insert(0, 'vc')
import replaylib
try:
    replaylib.build()
    print('replay crate built')
except Exception as e:
    print('replay crate not built (replays will say so):', e)
PY
exit 0
